//go:build verif

// Contracts for package mem, property C20, byte-level view (comment-only; read by /verif/engine, never compiled into a build).
// The fn blocks that use these definitions are in zz_contracts_verif.go, section C20 (one fn block per function).
//
// View: the storage is the byte array  mem[a] = s.data[k].data[j]  for the unit key k and in-unit offset j with
// k + j == a, 0 <= j < unitSize (k = a - a mod unitSize, j = a mod unitSize: lemma unitOf), and 0 when that unit is absent.
// All quantified facts are written per unit, over (k, j), so that no division occurs under a quantifier.
package mem

// Representation invariant of the view: unit keys are multiples of unitSize, hence pairwise one unit apart; distinct
// keys hold distinct unit objects with distinct backing arrays, all allocated before "now".
//@ func usz(s) = int(s.unitSize)
//@ pred unitsAligned(s) = forall k uint64 :: k in s.data ==> k % usz(s) == 0
//@ pred unitsDisjoint(s) = forall k1 uint64, k2 uint64 :: k1 in s.data && k2 in s.data && k1 < k2 ==> k1 + usz(s) <= k2
//@ pred unitsDistinct(s) = forall k1 uint64, k2 uint64 :: k1 in s.data && k2 in s.data && k1 != k2 ==> s.data[k1] != s.data[k2] && ref(s.data[k1].data) != ref(s.data[k2].data)
//@ pred unitsOwned(s) = forall k uint64 :: k in s.data ==> s.data[k] <= allocTop && ref(s.data[k].data) <= allocTop
//@ pred storageFlat(s) = storageWF(s) && unitsAligned(s) && unitsDisjoint(s) && unitsDistinct(s) && unitsOwned(s)

//@ lemma multApart(u, a, b)
//@   property C20
//@   requires u > 0
//@   label C20.lemma.multapart
//@   ensures a * u < b * u ==> a * u + u <= b * u

// Glue between the per-unit view and flat addresses: the unit key and offset of address a are what parseAddress computes.
//@ lemma unitOf(a, u, q, j)
//@   property C20
//@   requires u > 0 && q >= 0 && 0 <= j && j < u && a == q * u + j
//@   label C20.lemma.unitof.offset
//@   ensures a % u == j
//@   label C20.lemma.unitof.key
//@   ensures a - a % u == q * u

// Two different multiples of u are at least u apart (a fixed, every b): instantiated for every a by LoadCheckpoint, whose
// unit addresses are loop locals (a `use` is evaluated at function entry).
//@ lemma modApartAll(u, a)
//@   property C20
//@   requires u > 0 && a >= 0 && a % u == 0
//@   label C20.lemma.modapart.above
//@   ensures forall b nat :: b % u == 0 && a < b ==> a + u <= b
//@   label C20.lemma.modapart.below
//@   ensures forall b nat :: b % u == 0 && b < a ==> b + u <= a
