//go:build verif

// Contracts for package writethroughcache, property C16 (comment-only; read by /verif/engine, never compiled into a build).
// C16 (masked merge): bottomParser.mergeMSHRData combines the fetched line `data` with the coalesced writes of an MSHR entry:
// a byte of the line is overwritten only by a coalesced write that covers it with its DirtyMask bit set, every other byte
// keeps its value, dirtyMask gains exactly the overwritten positions, lengths and the transactions are not modified.
package writethroughcache

//@ func txs(next) = next.Transactions
//@ func woff(next, tag, x) = int(txs(next)[x].WriteAddress) - int(tag)
// transaction x writes byte p of the line
//@ pred hitsT(next, tag, x, p) = 0 <= x && x < len(txs(next)) && txs(next)[x].HasWrite && woff(next, tag, x) <= p && p < woff(next, tag, x) + len(txs(next)[x].WriteData) && txs(next)[x].WriteDirtyMask[p - woff(next, tag, x)]
//@ pred okT(next, tag, x, data, dm) = 0 <= x && x < len(txs(next)) && (txs(next)[x].HasWrite ==> int(tag) <= int(txs(next)[x].WriteAddress) && woff(next, tag, x) + len(txs(next)[x].WriteData) <= len(data) && len(txs(next)[x].WriteDirtyMask) >= len(txs(next)[x].WriteData) && ref(txs(next)[x].WriteData) != ref(data) && ref(txs(next)[x].WriteDirtyMask) != ref(dm))
// no transaction's write buffer or mask shares a backing array with the line being merged
//@ pred lineApart(next, data, dm) = forall x in 0..len(txs(next)) :: ref(txs(next)[x].WriteData) != ref(data) && ref(txs(next)[x].WriteDirtyMask) != ref(dm)
//@ pred txBufKept(next) = forall x in 0..len(txs(next)) :: (forall q in 0..len(txs(next)[x].WriteData) :: txs(next)[x].WriteData[q] == old(txs(next)[x].WriteData[q])) && (forall q in 0..len(txs(next)[x].WriteDirtyMask) :: txs(next)[x].WriteDirtyMask[q] == old(txs(next)[x].WriteDirtyMask[q]))
//@ func wbyte(next, tag, x, p) = txs(next)[x].WriteData[p - woff(next, tag, x)]

//@ fn (*bottomParser).mergeMSHRData
//@   property C16
//@   requires next != nil && len(dirtyMask) == len(data)
//@   requires forall r in 0..len(entryTransIdxs) :: okT(next, blockTag, entryTransIdxs[r], data, dirtyMask)
//@   requires lineApart(next, data, dirtyMask)
//@   witness wT map = lw
//@   label C16.wt.merge.len
//@   ensures len(data) == old(len(data)) && len(dirtyMask) == old(len(dirtyMask))
//@   label C16.wt.merge.writer
//@   ensures forall p in 0..len(data) :: wT[p] >= 0 ==> hitsT(next, blockTag, wT[p], p)
//@   label C16.wt.merge.bytes
//@   ensures forall p in 0..len(data) :: data[p] == (wT[p] >= 0 ? wbyte(next, blockTag, wT[p], p) : old(data[p]))
//@   label C16.wt.merge.mask
//@   ensures forall p in 0..len(dirtyMask) :: dirtyMask[p] == (old(dirtyMask[p]) || wT[p] >= 0)
//@   label C16.wt.merge.complete
//@   ensures forall r in 0..len(entryTransIdxs) :: forall p in 0..len(data) :: hitsT(next, blockTag, entryTransIdxs[r], p) ==> wT[p] >= 0
//@   label C16.wt.merge.inputs.kept
//@   ensures txBufKept(next)
//@   assigns elems(data), elems(dirtyMask)
//@   loop 0: ghost lw = mapof(p, -1)
//@   loop 0: backedge lw = mapof(p, hitsT(next, blockTag, idx, p) ? idx : lw[p])
//@   loop 0: invariant -1 <= rangeindex && rangeindex < len(entryTransIdxs)
//@   loop 0: invariant txBufKept(next)
//@   loop 0: invariant forall p in 0..len(data) :: lw[p] >= 0 ==> hitsT(next, blockTag, lw[p], p)
//@   label C16.wt.merge.bytes.inv
//@   loop 0: invariant forall p in 0..len(data) :: data[p] == (lw[p] >= 0 ? wbyte(next, blockTag, lw[p], p) : old(data[p]))
//@   loop 0: invariant forall p in 0..len(dirtyMask) :: dirtyMask[p] == (old(dirtyMask[p]) || lw[p] >= 0)
//@   loop 0: invariant forall r in 0..rangeindex + 1 :: forall p in 0..len(data) :: hitsT(next, blockTag, entryTransIdxs[r], p) ==> lw[p] >= 0
//@   loop 1: invariant 0 <= i && i <= len(trans.WriteData) && okT(next, blockTag, idx, data, dirtyMask) && trans.HasWrite && int(offset) == woff(next, blockTag, idx)
//@   loop 1: invariant txBufKept(next)
//@   label C16.wt.merge.bytes.step
//@   loop 1: invariant forall p in 0..len(data) :: data[p] == ((hitsT(next, blockTag, idx, p) && p < int(offset) + i) ? wbyte(next, blockTag, idx, p) : (lw[p] >= 0 ? wbyte(next, blockTag, lw[p], p) : old(data[p])))
//@   label C16.wt.merge.mask.step
//@   loop 1: invariant forall p in 0..len(dirtyMask) :: dirtyMask[p] == ((hitsT(next, blockTag, idx, p) && p < int(offset) + i) || old(dirtyMask[p]) || lw[p] >= 0)
//@   loop 1: invariant forall p in 0..len(data) :: lw[p] >= 0 ==> hitsT(next, blockTag, lw[p], p)
