//go:build verif

// Contracts for package writethroughcache, property C16, masked merge of a write hit into the cached line
// (comment-only; read by /verif/engine, never compiled into a build).
// bankStage.finalizeWriteTrans reads the block's line from the cache's storage, overwrites exactly the bytes of the
// write whose WriteDirtyMask bit is set, writes the line back; every other byte of the storage keeps its value and the
// write's data and mask are not modified. (intake normalises a nil mask to all-true, so the mask covers the data.)
// The function builds no response (respondstage does), so there is no WriteDoneRsp clause here.
package writethroughcache

//@ func c16mSt(s) = s.cache.storage
//@ func c16mUsz(s) = int(c16mSt(s).unitSize)
//@ func c16mBlk(s, trans) = s.cache.comp.State.DirectoryState.Sets[trans.BlockSetID].Blocks[trans.BlockWayID]
//@ func c16mBS(s) = (1 << s.cache.comp.spec.Log2BlockSize)
//@ func c16mOff(s, trans) = int(trans.WriteAddress) - int(c16mBlk(s, trans).Tag)
//@ func c16mCA(s, trans) = int(c16mBlk(s, trans).CacheAddress)
// byte q of the line is overwritten by the first n bytes of the write
//@ pred c16mHit(trans, off, n, q) = off <= q && q < off + n && trans.WriteDirtyMask[q - off]
//@ pred c16mViewKept(s) = (forall k uint64 :: old(k in c16mSt(s).data) ==> (k in c16mSt(s).data) && c16mSt(s).data[k] == old(c16mSt(s).data[k])) && (forall k uint64 :: old(k in c16mSt(s).data) ==> forall j in 0..c16mUsz(s) :: c16mSt(s).data[k].data[j] == old(c16mSt(s).data[k].data[j])) && (forall k uint64 :: (k in c16mSt(s).data) && !old(k in c16mSt(s).data) ==> forall j in 0..c16mUsz(s) :: c16mSt(s).data[k].data[j] == 0)

// Tracing calls only notify hooks (user callbacks) and keep tracing-side tables; same trust as in the other packages.
//@ ext tracing.AddMilestone(domain, ms)
//@   trusted
//@   assigns nothing
//@ ext tracing.EndTask(domain, end)
//@   trusted
//@   assigns nothing
//@ ext tracing.MsgIDAtReceiver(msg, domain)
//@   trusted
//@   assigns nothing
//@ ext modeling.(*Component[S, T, R]).Name(c)
//@   trusted
//@   pure
//@ ext modeling.(*Component[S, T, R]).Spec(c)
//@   trusted
//@   pure
//@   ensures result == c.spec

//@ fn reqInTaskIDOf
//@   requires comp != nil && trans != nil
//@   assigns nothing
//@ fn (*bankStage).finishBank
//@   property C16
//@   requires s != nil && s.cache != nil && s.cache.comp != nil && s.cache.comp.TickingComponent != nil && trans != nil
//@   assigns nothing
//@ fn writeTransIsReady
//@   requires trans != nil
//@   assigns nothing

//@ fn (*bankStage).finalizeWriteTrans
//@   property C16
//@   requires s != nil && s.cache != nil && s.cache.comp != nil && s.cache.comp.TickingComponent != nil && c16mSt(s) != nil && mem.storageFlat(c16mSt(s)) && trans != nil && s.cache.comp.spec.Log2BlockSize <= 40
//@   requires 0 <= trans.BlockSetID && trans.BlockSetID < len(s.cache.comp.State.DirectoryState.Sets) && 0 <= trans.BlockWayID && trans.BlockWayID < len(s.cache.comp.State.DirectoryState.Sets[trans.BlockSetID].Blocks)
//@   requires 0 <= s.bankID && s.bankID < len(s.cache.comp.State.BankPostBufs)
//@   requires c16mOff(s, trans) >= 0 && c16mOff(s, trans) + len(trans.WriteData) <= c16mBS(s)
//@   requires len(trans.WriteDirtyMask) >= len(trans.WriteData)
//@   requires ref(trans.WriteData) <= allocTop && ref(trans.WriteDirtyMask) <= allocTop
//@   witness wU map = Write_wU
//@   panics c16mCA(s, trans) + c16mBS(s) > int(c16mSt(s).capacity)
//@   label C16.merge.wt.result
//@   ensures result
//@   label C16.merge.wt.covered
//@   ensures forall q in 0..old(c16mBS(s)) :: (wU[q] in c16mSt(s).data) && 0 <= wU[q] && wU[q] <= old(c16mCA(s, trans)) + q && old(c16mCA(s, trans)) + q < wU[q] + c16mUsz(s)
//@   label C16.merge.wt.bytes
//@   ensures forall q in 0..old(c16mBS(s)) :: c16mSt(s).data[wU[q]].data[old(c16mCA(s, trans)) + q - wU[q]] == ((old(c16mOff(s, trans)) <= q && q < old(c16mOff(s, trans)) + old(len(trans.WriteData)) && old(trans.WriteDirtyMask[q - c16mOff(s, trans)])) ? old(trans.WriteData[q - c16mOff(s, trans)]) : (old(wU[q] in c16mSt(s).data) ? old(c16mSt(s).data[wU[q]].data[c16mCA(s, trans) + q - wU[q]]) : 0))
//@   label C16.merge.wt.outside
//@   ensures forall k uint64 :: k in c16mSt(s).data ==> forall j in 0..c16mUsz(s) :: !(old(c16mCA(s, trans)) <= k + j && k + j < old(c16mCA(s, trans)) + old(c16mBS(s))) ==> c16mSt(s).data[k].data[j] == (old(k in c16mSt(s).data) ? old(c16mSt(s).data[k].data[j]) : 0)
//@   label C16.merge.wt.units.kept
//@   ensures forall k uint64 :: old(k in c16mSt(s).data) ==> (k in c16mSt(s).data) && c16mSt(s).data[k] == old(c16mSt(s).data[k])
//@   label C16.merge.wt.inputs.kept
//@   ensures len(trans.WriteData) == old(len(trans.WriteData)) && (forall q in 0..len(trans.WriteData) :: trans.WriteDirtyMask[q] == old(trans.WriteDirtyMask[q]))
//@   label C16.merge.wt.wf
//@   ensures mem.storageFlat(c16mSt(s))
//@   assigns elems(c16mSt(s).data), key("E|uint8|"), s.cache.comp.State.DirectoryState.Sets[trans.BlockSetID].Blocks[trans.BlockWayID].DirtyMask, s.cache.comp.State.DirectoryState.Sets[trans.BlockSetID].Blocks[trans.BlockWayID].IsLocked, s.cache.comp.State.BankPostBufs[s.bankID].elements, trans.BankDone, trans.Done
//@   loop 0: invariant mem.storageFlat(c16mSt(s)) && 0 <= i && i <= len(trans.WriteData) && fresh(data) && len(data) == c16mBS(s) && int(offset) == c16mOff(s, trans) && nextBlock.CacheAddress == old(nextBlock.CacheAddress)
//@   loop 0: invariant c16mViewKept(s)
//@   loop 0: invariant forall q in 0..len(trans.WriteData) :: trans.WriteData[q] == old(trans.WriteData[q])
//@   loop 0: invariant forall q in 0..len(trans.WriteDirtyMask) :: trans.WriteDirtyMask[q] == old(trans.WriteDirtyMask[q])
//@   label C16.merge.wt.inv
//@   loop 0: invariant forall q in 0..len(data) :: data[q] == (c16mHit(trans, int(offset), i, q) ? trans.WriteData[q - int(offset)] : c16mSt(s).data[Read_rU[q]].data[c16mCA(s, trans) + q - Read_rU[q]])
