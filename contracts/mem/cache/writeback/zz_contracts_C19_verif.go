//go:build verif

// Contracts for package writeback, property C19 (comment-only; read by /verif/engine, never compiled into a build).
// Call-site obligation of C19: a block that is locked or has readers is never chosen for replacement. Every function
// that overwrites a block's Tag / locks it for a new line REQUIRES the block to be free (not locked, no readers);
// the requirement is discharged at every call site on the paths from DirectoryFindVictim / the write-hit check.
package writeback

//@ pred wbBlockIn(ds, setID, wayID) = 0 <= setID && setID < len(ds.cache.comp.State.DirectoryState.Sets) && 0 <= wayID && wayID < len(ds.cache.comp.State.DirectoryState.Sets[setID].Blocks)
//@ pred wbBlockFree(ds, setID, wayID) = wbBlockIn(ds, setID, wayID) && !ds.cache.comp.State.DirectoryState.Sets[setID].Blocks[wayID].IsLocked && ds.cache.comp.State.DirectoryState.Sets[setID].Blocks[wayID].ReadCount <= 0

// The directory as the victim search needs it: positive geometry, one SetState per set, every recency order non-empty
// and indexing its own blocks (a consequence of cache.dirWF with numWays > 0).
//@ pred wbDirOK(ds) = ds != nil && ds.cache != nil && ds.cache.comp != nil && ds.cache.comp.spec.NumSets > 0 && ds.cache.comp.spec.Log2BlockSize < 62 && len(ds.cache.comp.State.DirectoryState.Sets) >= ds.cache.comp.spec.NumSets && (forall s in 0..ds.cache.comp.spec.NumSets :: len(ds.cache.comp.State.DirectoryState.Sets[s].LRUOrder) > 0 && (forall j in 0..len(ds.cache.comp.State.DirectoryState.Sets[s].LRUOrder) :: 0 <= ds.cache.comp.State.DirectoryState.Sets[s].LRUOrder[j] && ds.cache.comp.State.DirectoryState.Sets[s].LRUOrder[j] < len(ds.cache.comp.State.DirectoryState.Sets[s].Blocks)))

// ---- functions that hand a block to a new line: each REQUIRES the block to be free ----
//@ fn (*directoryStage).writeToBank
//@   requires ds != nil && ds.cache != nil && ds.cache.comp != nil && trans != nil
//@   label C19.wb.writetobank.free
//@   requires wbBlockFree(ds, setID, wayID)
//@   panics any

// ---- helpers on the way from the victim search to the replacement ----
//@ fn bankID
//@   panics numBanks == 0
//@   ensures numBanks > 0 && 0 <= setID && 0 <= wayID && 0 <= wayAssociativity && setID * wayAssociativity + wayID <= MaxInt64 ==> 0 <= result && result < numBanks
//@   assigns nothing
//@ fn (*directoryStage).needEviction
//@   requires victim != nil
//@   ensures result <==> (victim.IsValid && victim.IsDirty)
//@   assigns nothing
//@ fn getCacheLineID
//@   assigns nothing

// ---- decision sites: the block given to evict / fetch / writeToBank is free on every path ----
//@ fn (*directoryStage).doWriteHit
//@   property C19
//@   requires ds != nil && ds.cache != nil && ds.cache.comp != nil && trans != nil
//@   requires wbBlockIn(ds, setID, wayID)
//@   panics any

//@ fn (*directoryStage).writeFullLineMiss
//@   property C19
//@   requires wbDirOK(ds) && trans != nil
//@   panics any

// tracing.EndTask only notifies hooks (user callbacks); same trust as the other tracing calls (see C21's file).
//@ ext tracing.EndTask(domain, end)
//@   trusted
//@   assigns nothing

//@ fn (*directoryStage).popDirPostBuf
//@   requires ds != nil && ds.cache != nil && ds.cache.comp != nil
//@   panics any
//@   assigns ds.cache.comp.State.DirPostPipelineBuf.elements, elems(ds.cache.comp.State.DirPostPipelineBuf.elements), key("E|mem/cache/writeback.transactionState|.DirPipelinePID")

// Same text as in C21's file (kept here so this file binds on its own): Spec() returns the stored configuration.
//@ ext modeling.(*Component[S, T, R]).Spec(c)
//@   trusted
//@   pure
//@   ensures result == c.spec
