//go:build verif

// Contracts for package writeback, property C16 (comment-only; read by /verif/engine, never compiled into a build).
// C16 (masked merge into a cached line): bankStage.writeData reads the block's line from the cache's storage, overwrites
// exactly the bytes of the write that are covered by its dirty mask (all of them without a mask), writes the line back and
// returns the block's dirty mask with exactly those positions added. Every other byte of the storage keeps its value.
// Storage byte view: mem.storageFlat and the contracts of (*mem.Storage).Read/Write (C20, verified in package mem).
package writeback

//@ func c16st(s) = s.cache.storage
//@ func c16usz(s) = int(c16st(s).unitSize)
//@ pred c16wmask(trans, i) = trans.WriteDirtyMask == nil || trans.WriteDirtyMask[i]
// byte q of the line is overwritten by the write
//@ pred c16hit(trans, offset, n, q) = int(offset) <= q && q < int(offset) + n && c16wmask(trans, q - int(offset))
//@ pred c16viewKept(s) = (forall k uint64 :: old(k in c16st(s).data) ==> (k in c16st(s).data) && c16st(s).data[k] == old(c16st(s).data[k])) && (forall k uint64 :: old(k in c16st(s).data) ==> forall j in 0..c16usz(s) :: c16st(s).data[k].data[j] == old(c16st(s).data[k].data[j])) && (forall k uint64 :: (k in c16st(s).data) && !old(k in c16st(s).data) ==> forall j in 0..c16usz(s) :: c16st(s).data[k].data[j] == 0)

//@ fn (*bankStage).writeData
//@   property C16
//@   requires s.cache != nil && c16st(s) != nil && mem.storageFlat(c16st(s)) && block != nil && trans != nil && log2BlockSize <= 40
//@   requires int(offset) + len(trans.WriteData) <= (1 << log2BlockSize)
//@   requires trans.WriteDirtyMask == nil || len(trans.WriteDirtyMask) >= len(trans.WriteData)
//@   requires block.DirtyMask == nil || len(block.DirtyMask) >= (1 << log2BlockSize)
//@   requires ref(trans.WriteData) <= allocTop && ref(trans.WriteDirtyMask) <= allocTop && ref(block.DirtyMask) <= allocTop
//@   requires block.DirtyMask != nil && trans.WriteDirtyMask != nil ==> ref(trans.WriteDirtyMask) != ref(block.DirtyMask)
//@   witness bs int = len(data)
//@   witness wU map = Write_wU
//@   panics int(block.CacheAddress) + (1 << log2BlockSize) > int(c16st(s).capacity)
//@   label C16.wb.write.linesize
//@   ensures bs == (1 << log2BlockSize)
//@   label C16.wb.write.mask.len
//@   ensures len(result) == (old(block.DirtyMask == nil) ? bs : old(len(block.DirtyMask)))
//@   label C16.wb.write.mask
//@   ensures forall q in 0..bs :: result[q] == ((old(block.DirtyMask != nil) && old(block.DirtyMask[q])) || c16hit(trans, offset, len(trans.WriteData), q))
//@   label C16.wb.write.covered
//@   ensures forall q in 0..bs :: (wU[q] in c16st(s).data) && 0 <= wU[q] && wU[q] <= int(block.CacheAddress) + q && int(block.CacheAddress) + q < wU[q] + c16usz(s)
//@   label C16.wb.write.inrange
//@   ensures forall q in 0..bs :: c16st(s).data[wU[q]].data[int(block.CacheAddress) + q - wU[q]] == (c16hit(trans, offset, len(trans.WriteData), q) ? old(trans.WriteData[q - int(offset)]) : (old(wU[q] in c16st(s).data) ? old(c16st(s).data[wU[q]].data[int(block.CacheAddress) + q - wU[q]]) : 0))
//@   label C16.wb.write.outside
//@   ensures forall k uint64 :: k in c16st(s).data ==> forall j in 0..c16usz(s) :: !(int(block.CacheAddress) <= k + j && k + j < int(block.CacheAddress) + bs) ==> c16st(s).data[k].data[j] == (old(k in c16st(s).data) ? old(c16st(s).data[k].data[j]) : 0)
//@   label C16.wb.write.units.kept
//@   ensures forall k uint64 :: old(k in c16st(s).data) ==> (k in c16st(s).data) && c16st(s).data[k] == old(c16st(s).data[k])
//@   label C16.wb.write.wf
//@   ensures mem.storageFlat(c16st(s))
//@   assigns elems(c16st(s).data), key("E|uint8|"), elems(block.DirtyMask)
//@   loop 0: invariant mem.storageFlat(c16st(s)) && 0 <= i && i <= len(trans.WriteData) && fresh(data) && int(offset) + len(trans.WriteData) <= len(data) && len(dirtyMask) >= len(data)
//@   loop 0: invariant old(block.DirtyMask == nil) ? fresh(dirtyMask) : (ref(dirtyMask) == old(ref(block.DirtyMask)) && off(dirtyMask) == old(off(block.DirtyMask)) && len(dirtyMask) == old(len(block.DirtyMask)))
//@   loop 0: invariant c16viewKept(s)
//@   loop 0: invariant forall q in 0..len(trans.WriteData) :: trans.WriteData[q] == old(trans.WriteData[q])
//@   loop 0: invariant forall q in 0..len(trans.WriteDirtyMask) :: trans.WriteDirtyMask[q] == old(trans.WriteDirtyMask[q])
//@   label C16.wb.write.merge.inv
//@   loop 0: invariant forall q in 0..len(data) :: data[q] == (c16hit(trans, offset, i, q) ? trans.WriteData[q - int(offset)] : c16st(s).data[Read_rU[q]].data[int(block.CacheAddress) + q - Read_rU[q]])
//@   label C16.wb.write.mask.inv
//@   loop 0: invariant forall q in 0..len(data) :: dirtyMask[q] == ((old(block.DirtyMask != nil) && old(block.DirtyMask[q])) || c16hit(trans, offset, i, q))
