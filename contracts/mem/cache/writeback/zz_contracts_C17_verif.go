//go:build verif

// Contracts for package writeback, property C17 (comment-only; read by /verif/engine, never compiled into a build).
// Claimed part of C17: the SELECTION made by a flush. prepareBlockToFlushList appends to the flusher's to-evict list
// (and to the FlushedRefs list of the flush request) exactly the (set, way) of the blocks that are valid, dirty and
// match the filter of the request, each once, in (set, way) order, and writes no block. processFlush hands the head
// of that list to the bank stage as one eviction transaction. That the backing memory ends up current is a history
// property of cache + memory controller and is not stated here.
package writeback

// ---- vocabulary ----
//@ func evl(f) = f.pipeline.comp.State.FlusherBlockToEvictRefs
//@ func fll(f) = f.pipeline.comp.State.ProcessingFlush.FlushedRefs
//@ func fa(f) = f.pipeline.comp.State.ProcessingFlush.FilterAddresses
//@ func fpid(f) = f.pipeline.comp.State.ProcessingFlush.FilterPID
//@ func sets(f) = f.pipeline.comp.State.DirectoryState.Sets
//@ pred c17Busy(f, s, w) = sets(f)[s].Blocks[w].ReadCount > 0 || sets(f)[s].Blocks[w].IsLocked

// (set, way) as one integer; ways are Go ints, so the order of the codes is the lexicographic (set, way) order.
//@ const c17PW = 9223372036854775808
//@ func c17Pair(s, w) = s * c17PW + w

// Line alignment without division: line wl[j] is THE multiple of the block size bs (quotient wq[j]) with
// wl[j] <= FilterAddresses[j] < wl[j] + bs.
//@ pred c17LineOf(f, bs, wl, wq, j) = wl[j] == wq[j] * bs && wl[j] <= fa(f)[j] && fa(f)[j] < wl[j] + bs
// "tag is the line of one of the filter addresses": wi[tag] is the index of such an address (no exists).
//@ pred c17AddrSel(f, wl, wi, tag) = 0 <= wi[tag] && wi[tag] < len(fa(f)) && wl[wi[tag]] == tag
// The flush filter.
//@ pred c17Sel(f, wl, wi, s, w) = sets(f)[s].Blocks[w].IsValid && sets(f)[s].Blocks[w].IsDirty && (fpid(f) == 0 || sets(f)[s].Blocks[w].PID == fpid(f)) && (len(fa(f)) == 0 || c17AddrSel(f, wl, wi, sets(f)[s].Blocks[w].Tag))
// (s, w) has been visited when the cursor stands at set cs, way cw (inclusive).
// Index of (s, w) in the list while set cs is being walked: earlier sets are recorded in pos, the current one in posI.
//@ func c17Eff(pos, posI, cs, s, w) = (s < cs ? pos[c17Pair(s, w)] : posI[c17Pair(s, w)])
// (set, way) order
//@ pred c17Less(s1, w1, s2, w2) = s1 < s2 || (s1 == s2 && w1 < w2)
//@ pred c17Vis(s, w, cs, cw) = s < cs || (s == cs && w <= cw)

//@ fn (*flusher).prepareBlockToFlushList
//@   property C17 C03
//@   requires f != nil && f.pipeline != nil && f.pipeline.comp != nil
//@   requires f.pipeline.comp.spec.Log2BlockSize < 64
//@   requires ref(evl(f)) != ref(fll(f)) || cap(evl(f)) == 0
//     the two lists exist already (allocation order; the engine does not know it for references read from the entry heap)
//@   requires ref(evl(f)) <= allocTop && ref(fll(f)) <= allocTop
//     a tautology of Go (a length is an int); stated because lengths under a quantifier carry no type bound in the engine
//@   requires forall s in 0..len(sets(f)) :: len(sets(f)[s].Blocks) <= MaxInt64
//@   label C17.select.panics
//@   panics !(forall s in 0..len(sets(f)) :: forall w in 0..len(sets(f)[s].Blocks) :: !c17Busy(f, s, w))
//@   witness bs int = blockSize
//@   label C17.select.blocksize
//@   ensures bs == 1 << f.pipeline.comp.spec.Log2BlockSize
//@   label C17.select.lines
//@   ensures (forall j in 0..len(fa(f)) :: c17LineOf(f, bs, wl, wq, j)) && (forall j in 0..len(fa(f)) :: c17AddrSel(f, wl, wi, wl[j]))
//@   label C17.select.count
//@   ensures len(evl(f)) >= old(len(evl(f))) && len(evl(f)) - old(len(evl(f))) == len(fll(f)) - old(len(fll(f)))
//@   label C17.select.prefix
//@   ensures forall i in 0..old(len(evl(f))) :: evl(f)[i].SetID == old(evl(f)[i].SetID) && evl(f)[i].WayID == old(evl(f)[i].WayID)
//@   label C17.select.prefix2
//@   ensures forall i in 0..old(len(fll(f))) :: fll(f)[i].SetID == old(fll(f)[i].SetID) && fll(f)[i].WayID == old(fll(f)[i].WayID)
//@   label C17.select.samelists
//@   ensures forall i in old(len(evl(f)))..len(evl(f)) :: fll(f)[i - old(len(evl(f))) + old(len(fll(f)))].SetID == evl(f)[i].SetID && fll(f)[i - old(len(evl(f))) + old(len(fll(f)))].WayID == evl(f)[i].WayID
//@   label C17.select.sound
//@   ensures forall i in old(len(evl(f)))..len(evl(f)) :: 0 <= evl(f)[i].SetID && evl(f)[i].SetID < len(sets(f)) && 0 <= evl(f)[i].WayID && evl(f)[i].WayID < len(sets(f)[evl(f)[i].SetID].Blocks) && c17Sel(f, wl, wi, evl(f)[i].SetID, evl(f)[i].WayID)
//@   label C17.select.once
//@   ensures forall i in old(len(evl(f)))..len(evl(f)) :: pos[c17Pair(evl(f)[i].SetID, evl(f)[i].WayID)] == i
//@   label C17.select.complete
//@   ensures forall s in 0..len(sets(f)) :: forall w in 0..len(sets(f)[s].Blocks) :: c17Sel(f, wl, wi, s, w) ==> old(len(evl(f))) <= pos[c17Pair(s, w)] && pos[c17Pair(s, w)] < len(evl(f)) && evl(f)[pos[c17Pair(s, w)]].SetID == s && evl(f)[pos[c17Pair(s, w)]].WayID == w
//@   label C17.select.order
//@   ensures forall i in old(len(evl(f)))..len(evl(f)) - 1 :: c17Less(evl(f)[i].SetID, evl(f)[i].WayID, evl(f)[i + 1].SetID, evl(f)[i + 1].WayID)
//@   assigns f.pipeline.comp.State.FlusherBlockToEvictRefs, f.pipeline.comp.State.ProcessingFlush.FlushedRefs, elems(f.pipeline.comp.State.FlusherBlockToEvictRefs), elems(f.pipeline.comp.State.ProcessingFlush.FlushedRefs)
//
//     loop 0 builds the set of line-aligned filter addresses
//@   loop 0: ghost wl = idperm
//@   loop 0: backedge wl = upd(wl, rangeindex, a / blockSize * blockSize)
//@   loop 0: ghost wq = idperm
//@   loop 0: backedge wq = upd(wq, rangeindex, a / blockSize)
//@   loop 0: ghost wi = idperm
//@   loop 0: backedge wi = upd(wi, a / blockSize * blockSize, rangeindex)
//@   loop 0: invariant -1 <= rangeindex && rangeindex < len(fa(f)) && blockSize > 0
//@   loop 0: invariant len(matchAddr) >= 0 && (len(matchAddr) > 0 <==> rangeindex >= 0)
//@   loop 0: invariant forall j in 0..rangeindex + 1 :: c17LineOf(f, blockSize, wl, wq, j)
//@   loop 0: invariant forall j in 0..rangeindex + 1 :: (wl[j] in matchAddr) && matchAddr[wl[j]]
//@   loop 0: invariant forall k int :: (k in matchAddr) ==> matchAddr[k] && 0 <= wi[k] && wi[k] <= rangeindex && wl[wi[k]] == k
//
//     loop 1 walks the sets (rangeindex = last finished set), loop 2 the ways of set `setID`
//@   loop 1: ghost pos = idperm
//@   loop 1: backedge pos = mapof(p, p >= setID * c17PW ? posI[p] : pos[p])
//@   loop 1: invariant true ==> ((-1 <= rangeindex && rangeindex < len(sets(f))) && ((ref(evl(f)) != ref(fll(f)) || cap(evl(f)) == 0) && ref(evl(f)) <= allocTop && ref(fll(f)) <= allocTop && (ref(evl(f)) == old(ref(evl(f))) || fresh(evl(f))) && (ref(fll(f)) == old(ref(fll(f))) || fresh(fll(f)))) && (len(evl(f)) >= old(len(evl(f))) && len(evl(f)) - old(len(evl(f))) == len(fll(f)) - old(len(fll(f)))))
//@   loop 1: invariant forall i in 0..old(len(evl(f))) :: evl(f)[i].SetID == old(evl(f)[i].SetID) && evl(f)[i].WayID == old(evl(f)[i].WayID)
//@   loop 1: invariant forall i in 0..old(len(fll(f))) :: fll(f)[i].SetID == old(fll(f)[i].SetID) && fll(f)[i].WayID == old(fll(f)[i].WayID)
//@   loop 1: invariant forall i in old(len(evl(f)))..len(evl(f)) :: fll(f)[i - old(len(evl(f))) + old(len(fll(f)))].SetID == evl(f)[i].SetID && fll(f)[i - old(len(evl(f))) + old(len(fll(f)))].WayID == evl(f)[i].WayID
//@   loop 1: invariant forall i in old(len(evl(f)))..len(evl(f)) :: 0 <= evl(f)[i].SetID && evl(f)[i].SetID <= rangeindex && 0 <= evl(f)[i].WayID && evl(f)[i].WayID < len(sets(f)[evl(f)[i].SetID].Blocks)
//@   loop 1: invariant forall i in old(len(evl(f)))..len(evl(f)) :: c17Sel(f, wl, wi, evl(f)[i].SetID, evl(f)[i].WayID)
//@   loop 1: invariant forall i in old(len(evl(f)))..len(evl(f)) :: pos[c17Pair(evl(f)[i].SetID, evl(f)[i].WayID)] == i
//@   loop 1: invariant forall s in 0..rangeindex + 1 :: forall w in 0..len(sets(f)[s].Blocks) :: c17Sel(f, wl, wi, s, w) ==> old(len(evl(f))) <= pos[c17Pair(s, w)] && pos[c17Pair(s, w)] < len(evl(f)) && evl(f)[pos[c17Pair(s, w)]].SetID == s && evl(f)[pos[c17Pair(s, w)]].WayID == w
//@   loop 1: invariant forall i in old(len(evl(f)))..len(evl(f)) - 1 :: c17Less(evl(f)[i].SetID, evl(f)[i].WayID, evl(f)[i + 1].SetID, evl(f)[i + 1].WayID)
//@   loop 1: invariant forall s in 0..rangeindex + 1 :: forall w in 0..len(sets(f)[s].Blocks) :: !c17Busy(f, s, w)
//
//@   loop 2: ghost posI = idperm
//@   loop 2: backedge posI = len(evl(f)) > athead(len(evl(f))) ? upd(posI, c17Pair(setID, wayID), athead(len(evl(f)))) : posI
//@   loop 2: invariant true ==> ((0 <= setID && setID < len(sets(f)) && -1 <= rangeindex && rangeindex < len(sets(f)[setID].Blocks)) && (ref(set.Blocks) == ref(sets(f)[setID].Blocks) && off(set.Blocks) == off(sets(f)[setID].Blocks) && len(set.Blocks) == len(sets(f)[setID].Blocks)) && ((ref(evl(f)) != ref(fll(f)) || cap(evl(f)) == 0) && ref(evl(f)) <= allocTop && ref(fll(f)) <= allocTop && (ref(evl(f)) == old(ref(evl(f))) || fresh(evl(f))) && (ref(fll(f)) == old(ref(fll(f))) || fresh(fll(f)))) && (len(evl(f)) >= old(len(evl(f))) && len(evl(f)) - old(len(evl(f))) == len(fll(f)) - old(len(fll(f)))))
//@   loop 2: invariant forall i in 0..old(len(evl(f))) :: evl(f)[i].SetID == old(evl(f)[i].SetID) && evl(f)[i].WayID == old(evl(f)[i].WayID)
//@   loop 2: invariant forall i in 0..old(len(fll(f))) :: fll(f)[i].SetID == old(fll(f)[i].SetID) && fll(f)[i].WayID == old(fll(f)[i].WayID)
//@   loop 2: invariant forall i in old(len(evl(f)))..len(evl(f)) :: fll(f)[i - old(len(evl(f))) + old(len(fll(f)))].SetID == evl(f)[i].SetID && fll(f)[i - old(len(evl(f))) + old(len(fll(f)))].WayID == evl(f)[i].WayID
//@   loop 2: invariant forall i in old(len(evl(f)))..len(evl(f)) :: 0 <= evl(f)[i].SetID && c17Vis(evl(f)[i].SetID, evl(f)[i].WayID, setID, rangeindex) && 0 <= evl(f)[i].WayID && evl(f)[i].WayID < len(sets(f)[evl(f)[i].SetID].Blocks)
//@   loop 2: invariant forall i in old(len(evl(f)))..len(evl(f)) :: c17Sel(f, wl, wi, evl(f)[i].SetID, evl(f)[i].WayID)
//@   loop 2: invariant forall i in old(len(evl(f)))..len(evl(f)) :: c17Eff(pos, posI, setID, evl(f)[i].SetID, evl(f)[i].WayID) == i
//@   loop 2: invariant forall s in 0..setID + 1 :: forall w in 0..len(sets(f)[s].Blocks) :: c17Vis(s, w, setID, rangeindex) && c17Sel(f, wl, wi, s, w) ==> old(len(evl(f))) <= c17Eff(pos, posI, setID, s, w) && c17Eff(pos, posI, setID, s, w) < len(evl(f)) && evl(f)[c17Eff(pos, posI, setID, s, w)].SetID == s && evl(f)[c17Eff(pos, posI, setID, s, w)].WayID == w
//@   loop 2: invariant forall i in old(len(evl(f)))..len(evl(f)) - 1 :: c17Less(evl(f)[i].SetID, evl(f)[i].WayID, evl(f)[i + 1].SetID, evl(f)[i + 1].WayID)
//@   loop 2: invariant forall s in 0..setID + 1 :: forall w in 0..len(sets(f)[s].Blocks) :: c17Vis(s, w, setID, rangeindex) ==> !c17Busy(f, s, w)

// ---- processFlush: the head of the list becomes one eviction transaction ----
//@ func txs(s) = s.Transactions
//@ fn (*State).indexHasInflightBottomTransaction
//@   requires s != nil
//@   assigns nothing
//@   loop 0: invariant -1 <= rangeindex && rangeindex < len(s.InflightEvictionIndices)
//@   loop 1: invariant -1 <= rangeindex && rangeindex < len(s.PendingEvictionIndices)
//@   loop 2: invariant -1 <= rangeindex && rangeindex < len(s.InflightFetchIndices)

// allocTransaction stores t in a slot that holds no live transaction (a Removed one, or a new last one) and returns
// its index; every other slot keeps its transaction.
//@ pred c17TxIs(s, k, t) = txs(s)[k].HasFlush == t.HasFlush && txs(s)[k].HasVictim == t.HasVictim && txs(s)[k].VictimPID == t.VictimPID && txs(s)[k].VictimTag == t.VictimTag && txs(s)[k].VictimCacheAddress == t.VictimCacheAddress && txs(s)[k].Action == t.Action && txs(s)[k].EvictingPID == t.EvictingPID && txs(s)[k].EvictingAddr == t.EvictingAddr && ref(txs(s)[k].EvictingDirtyMask) == ref(t.EvictingDirtyMask) && off(txs(s)[k].EvictingDirtyMask) == off(t.EvictingDirtyMask) && len(txs(s)[k].EvictingDirtyMask) == len(t.EvictingDirtyMask) && txs(s)[k].BlockSetID == t.BlockSetID && txs(s)[k].BlockWayID == t.BlockWayID && txs(s)[k].HasBlock == t.HasBlock && txs(s)[k].Removed == t.Removed
//@ pred c17TxKept(s, k) = txs(s)[k].Removed == old(txs(s)[k].Removed) && txs(s)[k].Action == old(txs(s)[k].Action) && txs(s)[k].HasFlush == old(txs(s)[k].HasFlush) && txs(s)[k].EvictingAddr == old(txs(s)[k].EvictingAddr) && txs(s)[k].EvictingPID == old(txs(s)[k].EvictingPID) && txs(s)[k].BlockSetID == old(txs(s)[k].BlockSetID) && txs(s)[k].BlockWayID == old(txs(s)[k].BlockWayID)
//@ pred c17FTxKept(f, k) = txs(f.pipeline.comp.State)[k].Removed == old(txs(f.pipeline.comp.State)[k].Removed) && txs(f.pipeline.comp.State)[k].Action == old(txs(f.pipeline.comp.State)[k].Action) && txs(f.pipeline.comp.State)[k].HasFlush == old(txs(f.pipeline.comp.State)[k].HasFlush) && txs(f.pipeline.comp.State)[k].EvictingAddr == old(txs(f.pipeline.comp.State)[k].EvictingAddr) && txs(f.pipeline.comp.State)[k].EvictingPID == old(txs(f.pipeline.comp.State)[k].EvictingPID) && txs(f.pipeline.comp.State)[k].BlockSetID == old(txs(f.pipeline.comp.State)[k].BlockSetID) && txs(f.pipeline.comp.State)[k].BlockWayID == old(txs(f.pipeline.comp.State)[k].BlockWayID)
//@ fn (*State).allocTransaction
//@   property C17
//@   requires s != nil
//@   label C17.alloc.slot
//@   ensures 0 <= result && result < len(txs(s)) && (result < old(len(txs(s))) ? len(txs(s)) == old(len(txs(s))) && old(txs(s)[result].Removed) : result == old(len(txs(s))) && len(txs(s)) == old(len(txs(s))) + 1)
//@   label C17.alloc.stored
//@   ensures c17TxIs(s, result, t)
//@   label C17.alloc.others
//@   ensures forall k in 0..old(len(txs(s))) :: k != result ==> c17TxKept(s, k)
//@   assigns s.Transactions, elems(s.Transactions)
//@   loop 0: invariant -1 <= rangeindex && rangeindex < len(txs(s)) && len(txs(s)) == old(len(txs(s))) && ref(txs(s)) == old(ref(txs(s))) && off(txs(s)) == old(off(txs(s)))
//@   loop 0: invariant forall k in 0..len(txs(s)) :: c17TxKept(s, k)

//@ func bufs(f) = f.pipeline.comp.State.DirToBankBufs
//@ pred c17HeadOK(f) = 0 <= evl(f)[0].SetID && evl(f)[0].SetID < len(sets(f)) && 0 <= evl(f)[0].WayID && evl(f)[0].WayID < len(sets(f)[evl(f)[0].SetID].Blocks) && len(bufs(f)) > 0 && 0 <= f.pipeline.comp.spec.WayAssociativity && evl(f)[0].SetID * f.pipeline.comp.spec.WayAssociativity + evl(f)[0].WayID <= MaxInt64
//@ pred c17CanPush(f, b) = len(bufs(f)[b].elements) < bufs(f)[b].cap
// transaction k evicts block (s, w): it carries the block's PID, tag, cache address and dirty mask (the same slice)
//@ pred c17Evicts(f, k, s, w) = txs(f.pipeline.comp.State)[k].HasFlush && txs(f.pipeline.comp.State)[k].HasVictim && txs(f.pipeline.comp.State)[k].HasBlock && !txs(f.pipeline.comp.State)[k].Removed && txs(f.pipeline.comp.State)[k].Action == bankEvict && txs(f.pipeline.comp.State)[k].BlockSetID == s && txs(f.pipeline.comp.State)[k].BlockWayID == w
//@   && txs(f.pipeline.comp.State)[k].VictimPID == sets(f)[s].Blocks[w].PID && txs(f.pipeline.comp.State)[k].EvictingPID == sets(f)[s].Blocks[w].PID && txs(f.pipeline.comp.State)[k].VictimTag == sets(f)[s].Blocks[w].Tag && txs(f.pipeline.comp.State)[k].EvictingAddr == sets(f)[s].Blocks[w].Tag
//@   && txs(f.pipeline.comp.State)[k].VictimCacheAddress == sets(f)[s].Blocks[w].CacheAddress && ref(txs(f.pipeline.comp.State)[k].EvictingDirtyMask) == ref(sets(f)[s].Blocks[w].DirtyMask) && off(txs(f.pipeline.comp.State)[k].EvictingDirtyMask) == off(sets(f)[s].Blocks[w].DirtyMask) && len(txs(f.pipeline.comp.State)[k].EvictingDirtyMask) == len(sets(f)[s].Blocks[w].DirtyMask)
//@ fn (*flusher).processFlush
//@   property C17
//@   requires f != nil && f.pipeline != nil && f.pipeline.comp != nil
//@   requires len(evl(f)) > 0 ==> c17HeadOK(f) && (forall b in 0..len(bufs(f)) :: queueing.bufWF(bufs(f)[b]))
//     bank = the bank chosen by bankID for the head block (bankID's contract only promises a bank in range)
//@   witness bank int = bankNum
//@   witness tix int = transIdx
//@   label C17.flush.progress
//@   ensures (result ==> 0 <= bank && bank < len(bufs(f))) && (result <==> old(len(evl(f)) > 0) && old(c17CanPush(f, bank)))
//@   label C17.flush.blocked
//@   ensures !result ==> len(evl(f)) == old(len(evl(f))) && ref(evl(f)) == old(ref(evl(f))) && off(evl(f)) == old(off(evl(f))) && len(txs(f.pipeline.comp.State)) == old(len(txs(f.pipeline.comp.State)))
//@   label C17.flush.consumed
//@   ensures result ==> len(evl(f)) == old(len(evl(f))) - 1 && (forall i in 0..len(evl(f)) :: evl(f)[i].SetID == old(evl(f)[i + 1].SetID) && evl(f)[i].WayID == old(evl(f)[i + 1].WayID))
//@   label C17.flush.transaction
//@   ensures result ==> 0 <= tix && tix < len(txs(f.pipeline.comp.State)) && len(txs(f.pipeline.comp.State)) <= old(len(txs(f.pipeline.comp.State))) + 1 && c17Evicts(f, tix, old(evl(f)[0].SetID), old(evl(f)[0].WayID))
//@   label C17.flush.others
//@   ensures result ==> (forall k in 0..old(len(txs(f.pipeline.comp.State))) :: k != tix ==> c17FTxKept(f, k))
//@   label C17.flush.queued
//@   ensures result ==> len(bufs(f)[bank].elements) == old(len(bufs(f)[bank].elements)) + 1 && bufs(f)[bank].elements[old(len(bufs(f)[bank].elements))] == tix
//@   assigns f.pipeline.comp.State.FlusherBlockToEvictRefs, f.pipeline.comp.State.Transactions, elems(f.pipeline.comp.State.Transactions), elems(f.pipeline.comp.State.DirToBankBufs), key("E|int|")

// ---- flushCompleted: a flush is acknowledged only when nothing is left in flight ----
// (in particular no victim write-back, flush-initiated or ordinary, is pending or in flight towards the lower memory)
//@ func c17Cnts(f) = f.pipeline.comp.State.BankInflightTransCounts
//@ pred c17Quiet(f) = (forall i in 0..len(bufs(f)) :: len(bufs(f)[i].elements) == 0) && (forall i in 0..len(c17Cnts(f)) :: c17Cnts(f)[i] <= 0) && len(f.pipeline.comp.State.WriteBufferBuf.elements) == 0 && len(f.pipeline.comp.State.InflightFetchIndices) == 0 && len(f.pipeline.comp.State.InflightEvictionIndices) == 0 && len(f.pipeline.comp.State.PendingEvictionIndices) == 0
//@ fn (*flusher).flushCompleted
//@   property C17
//@   requires f != nil && f.pipeline != nil && f.pipeline.comp != nil
//@   label C17.completed.iff
//@   ensures result <==> c17Quiet(f)
//@   label C17.completed.noevictions
//@   ensures result ==> (len(f.pipeline.comp.State.PendingEvictionIndices) == 0 && len(f.pipeline.comp.State.InflightEvictionIndices) == 0)
//@   assigns nothing
//@   loop 0: invariant -1 <= rangeindex && rangeindex < len(bufs(f))
//@   loop 0: invariant forall j in 0..rangeindex + 1 :: len(bufs(f)[j].elements) == 0
//@   loop 1: invariant -1 <= rangeindex && rangeindex < len(c17Cnts(f))
//@   loop 1: invariant forall j in 0..len(bufs(f)) :: len(bufs(f)[j].elements) == 0
//@   loop 1: invariant forall j in 0..rangeindex + 1 :: c17Cnts(f)[j] <= 0
