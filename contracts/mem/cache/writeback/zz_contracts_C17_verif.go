//go:build verif

// Contracts for package writeback, property C17 (comment-only; read by /verif/engine, never compiled into a build).
// Claimed part of C17: the SELECTION made by a flush. prepareBlockToFlushList appends to the flusher's to-evict list
// (and to the FlushedRefs list of the flush request) exactly the (set, way) of the blocks that are valid, dirty and
// match the filter of the request, each once, in (set, way) order, and writes no block. processFlush hands the head
// of that list to the bank stage as one eviction transaction. That the backing memory ends up current is a history
// property of cache + memory controller and is not stated here.
package writeback

// ---- vocabulary ----
//@ func evl(f) = f.pipeline.comp.State.FlusherBlockToEvictRefs
//@ func fll(f) = f.pipeline.comp.State.ProcessingFlush.FlushedRefs
//@ func fa(f) = f.pipeline.comp.State.ProcessingFlush.FilterAddresses
//@ func fpid(f) = f.pipeline.comp.State.ProcessingFlush.FilterPID
//@ func sets(f) = f.pipeline.comp.State.DirectoryState.Sets
//@ pred c17Busy(f, s, w) = sets(f)[s].Blocks[w].ReadCount > 0 || sets(f)[s].Blocks[w].IsLocked

// (set, way) as one integer; ways are Go ints, so the order of the codes is the lexicographic (set, way) order.
//@ const c17PW = 9223372036854775808
//@ func c17Pair(s, w) = s * c17PW + w

// Line alignment without division: line wl[j] is THE multiple of the block size bs (quotient wq[j]) with
// wl[j] <= FilterAddresses[j] < wl[j] + bs.
//@ pred c17LineOf(f, bs, wl, wq, j) = wl[j] == wq[j] * bs && wl[j] <= fa(f)[j] && fa(f)[j] < wl[j] + bs
// "tag is the line of one of the filter addresses": wi[tag] is the index of such an address (no exists).
//@ pred c17AddrSel(f, wl, wi, tag) = 0 <= wi[tag] && wi[tag] < len(fa(f)) && wl[wi[tag]] == tag
// The flush filter.
//@ pred c17Sel(f, wl, wi, s, w) = sets(f)[s].Blocks[w].IsValid && sets(f)[s].Blocks[w].IsDirty && (fpid(f) == 0 || sets(f)[s].Blocks[w].PID == fpid(f)) && (len(fa(f)) == 0 || c17AddrSel(f, wl, wi, sets(f)[s].Blocks[w].Tag))
// (s, w) has been visited when the cursor stands at set cs, way cw (inclusive).
//@ pred c17Vis(s, w, cs, cw) = s < cs || (s == cs && w <= cw)

//@ fn (*flusher).prepareBlockToFlushList
//@   property C17
//@   requires f != nil && f.pipeline != nil && f.pipeline.comp != nil
//@   requires f.pipeline.comp.spec.Log2BlockSize < 64
//@   requires ref(evl(f)) != ref(fll(f)) || cap(evl(f)) == 0
//@   label C17.select.panics
//@   panics !(forall s in 0..len(sets(f)) :: forall w in 0..len(sets(f)[s].Blocks) :: !c17Busy(f, s, w))
//@   witness bs int = blockSize
//@   label C17.select.blocksize
//@   ensures bs == 1 << f.pipeline.comp.spec.Log2BlockSize
//@   label C17.select.lines
//@   ensures forall j in 0..len(fa(f)) :: c17LineOf(f, bs, wl, wq, j) && c17AddrSel(f, wl, wi, wl[j])
//@   label C17.select.count
//@   ensures len(evl(f)) >= old(len(evl(f))) && len(evl(f)) - old(len(evl(f))) == len(fll(f)) - old(len(fll(f)))
//@   label C17.select.prefix
//@   ensures forall i in 0..old(len(evl(f))) :: evl(f)[i].SetID == old(evl(f)[i].SetID) && evl(f)[i].WayID == old(evl(f)[i].WayID)
//@   label C17.select.prefix2
//@   ensures forall i in 0..old(len(fll(f))) :: fll(f)[i].SetID == old(fll(f)[i].SetID) && fll(f)[i].WayID == old(fll(f)[i].WayID)
//@   label C17.select.samelists
//@   ensures forall i in old(len(evl(f)))..len(evl(f)) :: fll(f)[i - old(len(evl(f))) + old(len(fll(f)))].SetID == evl(f)[i].SetID && fll(f)[i - old(len(evl(f))) + old(len(fll(f)))].WayID == evl(f)[i].WayID
//@   label C17.select.sound
//@   ensures forall i in old(len(evl(f)))..len(evl(f)) :: 0 <= evl(f)[i].SetID && evl(f)[i].SetID < len(sets(f)) && 0 <= evl(f)[i].WayID && evl(f)[i].WayID < len(sets(f)[evl(f)[i].SetID].Blocks) && c17Sel(f, wl, wi, evl(f)[i].SetID, evl(f)[i].WayID)
//@   label C17.select.once
//@   ensures forall i in old(len(evl(f)))..len(evl(f)) :: pos[c17Pair(evl(f)[i].SetID, evl(f)[i].WayID)] == i
//@   label C17.select.complete
//@   ensures forall s in 0..len(sets(f)) :: forall w in 0..len(sets(f)[s].Blocks) :: c17Sel(f, wl, wi, s, w) ==> old(len(evl(f))) <= pos[c17Pair(s, w)] && pos[c17Pair(s, w)] < len(evl(f)) && evl(f)[pos[c17Pair(s, w)]].SetID == s && evl(f)[pos[c17Pair(s, w)]].WayID == w
//@   label C17.select.order
//@   ensures forall i in old(len(evl(f)))..len(evl(f)) - 1 :: c17Pair(evl(f)[i].SetID, evl(f)[i].WayID) < c17Pair(evl(f)[i + 1].SetID, evl(f)[i + 1].WayID)
//@   assigns f.pipeline.comp.State.FlusherBlockToEvictRefs, f.pipeline.comp.State.ProcessingFlush.FlushedRefs, elems(f.pipeline.comp.State.FlusherBlockToEvictRefs), elems(f.pipeline.comp.State.ProcessingFlush.FlushedRefs)
//
//     loop 0 builds the set of line-aligned filter addresses
//@   loop 0: ghost wl = idperm
//@   loop 0: backedge wl = upd(wl, rangeindex, a / blockSize * blockSize)
//@   loop 0: ghost wq = idperm
//@   loop 0: backedge wq = upd(wq, rangeindex, a / blockSize)
//@   loop 0: ghost wi = idperm
//@   loop 0: backedge wi = upd(wi, a / blockSize * blockSize, rangeindex)
//@   loop 0: invariant -1 <= rangeindex && rangeindex < len(fa(f)) && blockSize > 0
//@   loop 0: invariant len(matchAddr) >= 0 && (len(matchAddr) > 0 <==> rangeindex >= 0)
//@   loop 0: invariant forall j in 0..rangeindex + 1 :: c17LineOf(f, blockSize, wl, wq, j) && (wl[j] in matchAddr)
//@   loop 0: invariant forall k int :: (k in matchAddr) ==> matchAddr[k] && 0 <= wi[k] && wi[k] <= rangeindex && wl[wi[k]] == k
