//go:build verif

// Contracts for package cache, property C19 (comment-only; read by /verif/engine, never compiled into a build).
package cache

//@ fn DirectorySetID
//@   property C19
//@   panics blockSize == 0 || numSets == 0
//@   label C19.setid.range
//@   ensures numSets > 0 ==> 0 <= result && result < numSets
//@   assigns nothing

//@ pred blockHit(b, pid, addr) = b.IsValid && b.Tag == addr && b.PID == pid

//@ fn DirectoryLookup
//@   property C19
//@   requires ds != nil && numSets > 0 && blockSize > 0 && len(ds.Sets) >= numSets
//@   label C19.lookup.set
//@   ensures 0 <= result0 && result0 < numSets
//@   label C19.lookup.hit
//@   ensures result2 ==> 0 <= result1 && result1 < len(ds.Sets[result0].Blocks) && blockHit(ds.Sets[result0].Blocks[result1], pid, addr)
//@   label C19.lookup.first
//@   ensures result2 ==> (forall j in 0..result1 :: !blockHit(ds.Sets[result0].Blocks[j], pid, addr))
//@   label C19.lookup.unique
//@   ensures result2 && (forall j in 0..len(ds.Sets[result0].Blocks) :: forall k in 0..j :: !(blockHit(ds.Sets[result0].Blocks[j], pid, addr) && blockHit(ds.Sets[result0].Blocks[k], pid, addr))) ==> (forall j in 0..len(ds.Sets[result0].Blocks) :: blockHit(ds.Sets[result0].Blocks[j], pid, addr) ==> j == result1)
//@   label C19.lookup.miss
//@   ensures !result2 ==> result1 == -1 && (forall j in 0..len(ds.Sets[result0].Blocks) :: !blockHit(ds.Sets[result0].Blocks[j], pid, addr))
//@   assigns nothing
//@   loop 0: invariant -1 <= rangeindex && rangeindex < len(set.Blocks)
//@   loop 0: invariant forall j in 0..rangeindex + 1 :: !blockHit(set.Blocks[j], pid, addr)

//@ pred idle(b) = !b.IsLocked && b.ReadCount == 0
//@ pred lruInRange(ds, s) = len(ds.Sets[s].LRUOrder) > 0 && (forall j in 0..len(ds.Sets[s].LRUOrder) :: 0 <= ds.Sets[s].LRUOrder[j] && ds.Sets[s].LRUOrder[j] < len(ds.Sets[s].Blocks))

//@ fn DirectoryFindVictim
//@   property C19
//@   requires ds != nil && numSets > 0 && blockSize > 0 && len(ds.Sets) >= numSets
//@   requires forall s in 0..numSets :: lruInRange(ds, s)
//@   label C19.victim.set
//@   ensures 0 <= result0 && result0 < numSets
//@   label C19.victim.member
//@   ensures firstIndex(ds.Sets[result0].LRUOrder, result1) < len(ds.Sets[result0].LRUOrder)
//@   label C19.victim.idle
//@   ensures forall j in 0..len(ds.Sets[result0].LRUOrder) :: idle(ds.Sets[result0].Blocks[ds.Sets[result0].LRUOrder[j]]) ==> idle(ds.Sets[result0].Blocks[result1])
//@   label C19.victim.first
//@   ensures forall j in 0..firstIndex(ds.Sets[result0].LRUOrder, result1) :: !idle(ds.Sets[result0].Blocks[ds.Sets[result0].LRUOrder[j]])
//@   label C19.victim.allbusy
//@   ensures (forall j in 0..len(ds.Sets[result0].LRUOrder) :: !idle(ds.Sets[result0].Blocks[ds.Sets[result0].LRUOrder[j]])) ==> result1 == ds.Sets[result0].LRUOrder[0]
//@   assigns nothing
//@   loop 0: invariant -1 <= rangeindex && rangeindex < len(set.LRUOrder)
//@   loop 0: invariant forall j in 0..rangeindex + 1 :: !idle(set.Blocks[set.LRUOrder[j]])

// dirWF(ds, numSets, numWays): the directory has numSets sets; every set has numWays blocks whose WayID/SetID fields
// name their own position, and a recency order that is a permutation of 0..numWays-1 (stated without `exists`:
// numWays entries, every entry a way number, no entry twice). The recency orders of different sets do not share
// a backing array (DirectoryVisit reorders in place).
//@ pred lruPerm(ds, s, n) = len(ds.Sets[s].LRUOrder) == n && (forall j in 0..n :: 0 <= ds.Sets[s].LRUOrder[j] && ds.Sets[s].LRUOrder[j] < n) && (forall j in 0..n :: forall k in 0..j :: ds.Sets[s].LRUOrder[j] != ds.Sets[s].LRUOrder[k])
//@ pred blocksWF(ds, s, n) = len(ds.Sets[s].Blocks) == n && (forall w in 0..n :: ds.Sets[s].Blocks[w].WayID == w && ds.Sets[s].Blocks[w].SetID == s)
//@ pred lruLenAll(ds, n) = forall s in 0..len(ds.Sets) :: len(ds.Sets[s].LRUOrder) == n
//@ pred lruRangeAll(ds, n) = forall s in 0..len(ds.Sets) :: forall j in 0..len(ds.Sets[s].LRUOrder) :: 0 <= ds.Sets[s].LRUOrder[j] && ds.Sets[s].LRUOrder[j] < n
//@ pred lruNodupAll(ds) = forall s in 0..len(ds.Sets) :: forall j in 0..len(ds.Sets[s].LRUOrder) :: forall k in 0..j :: ds.Sets[s].LRUOrder[j] != ds.Sets[s].LRUOrder[k]
//@ pred blocksAll(ds, n) = forall s in 0..len(ds.Sets) :: blocksWF(ds, s, n)
//@ pred lruSeparate(ds) = (forall s in 0..len(ds.Sets) :: forall t in 0..len(ds.Sets) :: s != t ==> ref(ds.Sets[s].LRUOrder) != ref(ds.Sets[t].LRUOrder)) && lruAllocated(ds)
// Memory-model truism the engine only supplies for slices the code itself loads: a slice that exists now was
// allocated before now (so nothing allocated later can alias it).
//@ pred lruAllocated(ds) = forall s in 0..len(ds.Sets) :: ref(ds.Sets[s].LRUOrder) <= allocTop
//@ pred dirWF(ds, numSets, numWays) = ds != nil && len(ds.Sets) == numSets && lruLenAll(ds, numWays) && lruRangeAll(ds, numWays) && lruNodupAll(ds) && blocksAll(ds, numWays) && lruSeparate(ds)
//@ pred listed(ds, setID, wayID) = firstIndex(ds.Sets[setID].LRUOrder, wayID) < len(ds.Sets[setID].LRUOrder)

// Total contract: when wayID is not in the order it is appended (the order grows); when it is, it moves to the end.
//@ fn DirectoryVisit
//@   property C19
//@   panics ds == nil || setID < 0 || setID >= len(ds.Sets)
//@   label C19.visit.last
//@   ensures len(ds.Sets[setID].LRUOrder) > 0 && ds.Sets[setID].LRUOrder[len(ds.Sets[setID].LRUOrder) - 1] == wayID
//@   label C19.visit.len
//@   ensures len(ds.Sets[setID].LRUOrder) == (firstIndex(old(ds.Sets[setID].LRUOrder), wayID) == old(len(ds.Sets[setID].LRUOrder)) ? old(len(ds.Sets[setID].LRUOrder)) + 1 : old(len(ds.Sets[setID].LRUOrder)))
//@   label C19.visit.before
//@   ensures forall j in 0..firstIndex(old(ds.Sets[setID].LRUOrder), wayID) :: ds.Sets[setID].LRUOrder[j] == old(ds.Sets[setID].LRUOrder[j])
//@   label C19.visit.after
//@   ensures forall j in firstIndex(old(ds.Sets[setID].LRUOrder), wayID)..len(ds.Sets[setID].LRUOrder) - 1 :: ds.Sets[setID].LRUOrder[j] == old(ds.Sets[setID].LRUOrder[j + 1])
//@   label C19.visit.perm
//@   ensures old(lruPerm(ds, setID, len(ds.Sets[setID].LRUOrder))) && old(listed(ds, setID, wayID)) ==> lruPerm(ds, setID, old(len(ds.Sets[setID].LRUOrder)))
//@   label C19.visit.sets
//@   ensures len(ds.Sets) == old(len(ds.Sets)) && ref(ds.Sets) == old(ref(ds.Sets)) && off(ds.Sets) == old(off(ds.Sets))
//@   label C19.visit.others
//@   ensures forall t in 0..len(ds.Sets) :: t != setID ==> ref(ds.Sets[t].LRUOrder) == old(ref(ds.Sets[t].LRUOrder)) && off(ds.Sets[t].LRUOrder) == old(off(ds.Sets[t].LRUOrder)) && len(ds.Sets[t].LRUOrder) == old(len(ds.Sets[t].LRUOrder))
//@   label C19.visit.others.contents
//@   ensures old(lruSeparate(ds)) ==> (forall t in 0..len(ds.Sets) :: t != setID ==> (forall j in 0..len(ds.Sets[t].LRUOrder) :: ds.Sets[t].LRUOrder[j] == old(ds.Sets[t].LRUOrder[j])))
//@   label C19.visit.wf.len
//@   ensures old(lruLenAll(ds, len(ds.Sets[setID].LRUOrder))) && old(listed(ds, setID, wayID)) ==> lruLenAll(ds, old(len(ds.Sets[setID].LRUOrder)))
//@   label C19.visit.wf.range
//@   ensures old(lruSeparate(ds)) && old(lruRangeAll(ds, len(ds.Sets[setID].Blocks))) && old(listed(ds, setID, wayID)) ==> lruRangeAll(ds, old(len(ds.Sets[setID].Blocks)))
//@   label C19.visit.wf.nodup
//@   ensures old(lruSeparate(ds)) && old(lruNodupAll(ds)) && old(listed(ds, setID, wayID)) ==> lruNodupAll(ds)
//@   label C19.visit.wf.blocks
//@   ensures old(blocksAll(ds, len(ds.Sets[setID].Blocks))) ==> blocksAll(ds, old(len(ds.Sets[setID].Blocks)))
//@   label C19.visit.wf.separate
//@   ensures old(lruSeparate(ds)) && old(listed(ds, setID, wayID)) ==> lruSeparate(ds)
//@   assigns ds.Sets[setID].LRUOrder, elems(ds.Sets[setID].LRUOrder)
//@   loop 0: invariant -1 <= rangeindex && rangeindex < len(set.LRUOrder)
//@   loop 0: invariant forall j in 0..rangeindex + 1 :: set.LRUOrder[j] != wayID

// ---- DirectoryReset establishes dirWF, identity recency order, every block empty ----
//@ pred blockInit(b, s, w) = b.WayID == w && b.SetID == s && !b.IsValid && !b.IsDirty && !b.IsLocked && b.ReadCount == 0 && b.Tag == 0 && b.PID == 0 && len(b.DirtyMask) == 0
//@ pred resetRows(ds, i, n) = forall s in 0..i :: len(ds.Sets[s].Blocks) == n && len(ds.Sets[s].LRUOrder) == n && fresh(ds.Sets[s].LRUOrder) && fresh(ds.Sets[s].Blocks) && ref(ds.Sets[s].LRUOrder) <= allocTop && ref(ds.Sets[s].Blocks) <= allocTop
//@ pred resetLRU(ds, i, n) = forall s in 0..i :: forall w in 0..n :: ds.Sets[s].LRUOrder[w] == w
//@ pred resetBlocks(ds, i, n) = forall s in 0..i :: forall w in 0..n :: blockInit(ds.Sets[s].Blocks[w], s, w)
//@ pred resetSep(ds, i) = forall s in 0..i :: forall t in 0..s :: ref(ds.Sets[s].LRUOrder) != ref(ds.Sets[t].LRUOrder) && ref(ds.Sets[s].Blocks) != ref(ds.Sets[t].Blocks)

//@ fn DirectoryReset
//@   property C19
//@   requires numSets <= 1<<30 && numWays <= 1<<30 // make() panics on absurd lengths; far above any real directory
//@   panics ds == nil || numSets < 0 || (numSets > 0 && numWays < 0)
//@   label C19.reset.wf
//@   ensures dirWF(ds, numSets, numWays)
//@   label C19.reset.order
//@   ensures resetLRU(ds, numSets, numWays)
//@   label C19.reset.empty
//@   ensures resetBlocks(ds, numSets, numWays)
//@   label C19.reset.fresh
//@   ensures fresh(ds.Sets) && resetRows(ds, numSets, numWays)
//@   assigns ds.Sets
//@   loop 0: invariant 0 <= i && i <= numSets && len(ds.Sets) == numSets && fresh(ds.Sets) && (i > 0 ==> numWays >= 0)
//@   loop 0: invariant resetRows(ds, i, numWays)
//@   loop 0: invariant resetSep(ds, i)
//@   loop 0: invariant resetLRU(ds, i, numWays)
//@   loop 0: invariant resetBlocks(ds, i, numWays)
//@   loop 1: invariant 0 <= i && i < numSets && len(ds.Sets) == numSets && fresh(ds.Sets) && 0 <= j && j <= numWays
//@   loop 1: invariant len(ds.Sets[i].Blocks) == numWays && len(ds.Sets[i].LRUOrder) == numWays && fresh(ds.Sets[i].LRUOrder) && fresh(ds.Sets[i].Blocks)
//@   loop 1: invariant i > 0 ==> ref(ds.Sets[i].LRUOrder) != ref(ds.Sets[i - 1].LRUOrder) && ref(ds.Sets[i].Blocks) != ref(ds.Sets[i - 1].Blocks)
//@   loop 1: invariant j > 0 ==> ds.Sets[i].LRUOrder[j - 1] == j - 1 && blockInit(ds.Sets[i].Blocks[j - 1], i, j - 1)
//@   loop 1: invariant resetRows(ds, i + 1, numWays)
//@   loop 1: invariant resetSep(ds, i + 1)
//@   loop 1: invariant resetLRU(ds, i, numWays)
//@   loop 1: invariant resetBlocks(ds, i, numWays)
//@   loop 1: invariant forall w in 0..j :: ds.Sets[i].LRUOrder[w] == w
//@   loop 1: invariant forall w in 0..j :: blockInit(ds.Sets[i].Blocks[w], i, w)
