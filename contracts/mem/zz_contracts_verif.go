//go:build verif

// Contracts for package mem (comment-only; read by /verif/engine, never compiled into a build).
package mem

// ---- C24: interleaved address conversion ----
// a = external - Offset; R = IS*N. Element owning a: (a mod R) div IS. Internal address: (a div R)*IS + a mod IS.

//@ func owner(a, is, n) = (a % (is * n)) / is
//@ func conv(a, is, n) = (a / (is * n)) * is + a % is
//@ pred convCfg(is, n, idx) = is > 0 && n > 0 && 0 <= idx && idx < n && is * n < 18446744073709551616

//@ fn (InterleavingConverter).ConvertExternalToInternal
//@   property C24
//@   requires convCfg(int(c.InterleavingSize), int(c.TotalNumOfElements), int(c.CurrentElementIndex))
//@   panics external < c.Offset || owner(int(external) - int(c.Offset), int(c.InterleavingSize), int(c.TotalNumOfElements)) != int(c.CurrentElementIndex)
//@   label C24.convert.value
//@   ensures int(result) == conv(int(external) - int(c.Offset), int(c.InterleavingSize), int(c.TotalNumOfElements))

//@ fn ConvertAddress
//@   property C24
//@   requires kind != "" ==> convCfg(int(interleavingSize), int(totalNumOfElements), int(currentElementIndex))
//@   panics kind != "" && (addr < offset || owner(int(addr) - int(offset), int(interleavingSize), int(totalNumOfElements)) != int(currentElementIndex))
//@   label C24.convertaddress.identity
//@   ensures kind == "" ==> result == addr
//@   label C24.convertaddress.value
//@   ensures kind != "" ==> int(result) == conv(int(addr) - int(offset), int(interleavingSize), int(totalNumOfElements))

// Every address a >= 0 has a unique decomposition a = (k*n + o)*is + m with 0 <= o < n, 0 <= m < is
// (k = round, o = owning element, m = offset in the stripe). The lemmas below are stated over that
// decomposition (explicit witnesses, so no existential is needed); decomp ties it to owner/conv.

//@ lemma decomp(a, is, n, k, o, m)
//@   property C24
//@   requires is > 0 && n > 0 && k >= 0 && 0 <= o && o < n && 0 <= m && m < is
//@   requires a == (k * n + o) * is + m
//@   label C24.lemma.decomp.round
//@   ensures a / (is * n) == k
//@   label C24.lemma.decomp.rem
//@   ensures a % (is * n) == o * is + m
//@   label C24.lemma.decomp.mod
//@   ensures a % is == m
//@   label C24.lemma.decomp.div
//@   ensures a / is == k * n + o

//@ lemma decompOwner(a, is, n, k, o, m)
//@   property C24
//@   requires is > 0 && n > 0 && k >= 0 && 0 <= o && o < n && 0 <= m && m < is
//@   requires a == (k * n + o) * is + m
//@   use decomp(a, is, n, k, o, m)
//@   label C24.lemma.decomp.owner
//@   ensures owner(a, is, n) == o
//@   label C24.lemma.decomp.conv
//@   ensures conv(a, is, n) == k * is + m

//@ lemma mulMono(a, b, c)
//@   property C24
//@   label C24.lemma.mulmono
//@   ensures a <= b && c >= 0 ==> a * c <= b * c

//@ lemma roundOrder(is, n, o, k1, m1, k2, m2)
//@   property C24
//@   requires is > 0 && n > 0 && 0 <= o && o < n && k1 >= 0 && k2 >= 0 && 0 <= m1 && m1 < is && 0 <= m2 && m2 < is
//@   requires (k1 * n + o) * is + m1 < (k2 * n + o) * is + m2
//@   use mulMono(k2 + 1, k1, n * is)
//@   use mulMono(1, n, is)
//@   label C24.lemma.roundorder
//@   ensures k1 <= k2

// Order preservation (hence injectivity) on the addresses owned by one element:
//@ lemma convMonotone(is, n, o, k1, m1, k2, m2)
//@   property C24
//@   requires is > 0 && n > 0 && 0 <= o && o < n && k1 >= 0 && k2 >= 0 && 0 <= m1 && m1 < is && 0 <= m2 && m2 < is
//@   requires (k1 * n + o) * is + m1 < (k2 * n + o) * is + m2
//@   use decompOwner((k1 * n + o) * is + m1, is, n, k1, o, m1)
//@   use decompOwner((k2 * n + o) * is + m2, is, n, k2, o, m2)
//@   use roundOrder(is, n, o, k1, m1, k2, m2)
//@   use mulMono(k1 + 1, k2, is)
//@   label C24.lemma.monotone
//@   ensures conv((k1 * n + o) * is + m1, is, n) < conv((k2 * n + o) * is + m2, is, n)

// Contiguity inside a stripe, and from the end of a stripe to the element's next stripe:
//@ lemma convStripe(is, n, o, k, m)
//@   property C24
//@   requires is > 0 && n > 0 && 0 <= o && o < n && k >= 0 && 0 <= m && m + 1 < is
//@   use decompOwner((k * n + o) * is + m, is, n, k, o, m)
//@   use decompOwner((k * n + o) * is + m + 1, is, n, k, o, m + 1)
//@   label C24.lemma.stripe.owner
//@   ensures owner((k * n + o) * is + m + 1, is, n) == owner((k * n + o) * is + m, is, n)
//@   label C24.lemma.stripe.contiguous
//@   ensures conv((k * n + o) * is + m + 1, is, n) == conv((k * n + o) * is + m, is, n) + 1

//@ lemma convNextStripe(is, n, o, k)
//@   property C24
//@   requires is > 0 && n > 0 && 0 <= o && o < n && k >= 0
//@   use decompOwner((k * n + o) * is + (is - 1), is, n, k, o, is - 1)
//@   use decompOwner(((k + 1) * n + o) * is, is, n, k + 1, o, 0)
//@   label C24.lemma.nextstripe
//@   ensures conv(((k + 1) * n + o) * is, is, n) == conv((k * n + o) * is + (is - 1), is, n) + 1

//@ fn (*InterleavedAddressPortMapper).Find
//@   property C24
//@   requires f.InterleavingSize > 0 && len(f.LowModules) > 0
//@   label C24.find.limit
//@   ensures f.UseAddressSpaceLimitation && (address >= f.HighAddress || address < f.LowAddress) ==> result == f.ModuleForOtherAddresses
//@   label C24.find.element
//@   ensures !(f.UseAddressSpaceLimitation && (address >= f.HighAddress || address < f.LowAddress)) ==> result == f.LowModules[(int(address) / int(f.InterleavingSize)) % len(f.LowModules)]
//@   assigns nothing

// The mapper expresses only offsets that are multiples of the round size; for those it agrees with the converter:

//@ lemma mapperAgrees(off, is, n, j, k, o, m)
//@   property C24
//@   requires is > 0 && n > 0 && j >= 0 && k >= 0 && 0 <= o && o < n && 0 <= m && m < is
//@   requires off == j * (is * n)
//@   use decompOwner((k * n + o) * is + m, is, n, k, o, m)
//@   use decomp(off + (k * n + o) * is + m, is, n, j + k, o, m)
//@   label C24.lemma.mapper.agrees
//@   ensures owner((k * n + o) * is + m, is, n) == ((off + (k * n + o) * is + m) / is) % n
