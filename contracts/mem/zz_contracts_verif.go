//go:build verif

// Contracts for package mem (comment-only; read by /verif/engine, never compiled into a build).
package mem

// ---- C24: interleaved address conversion ----
// a = external - Offset; R = IS*N. Element owning a: (a mod R) div IS. Internal address: (a div R)*IS + a mod IS.

//@ func owner(a, is, n) = (a % (is * n)) / is
//@ func conv(a, is, n) = (a / (is * n)) * is + a % is
//@ pred convCfg(is, n, idx) = is > 0 && n > 0 && 0 <= idx && idx < n && is * n < 18446744073709551616

//@ fn (InterleavingConverter).ConvertExternalToInternal
//@   property C24
//@   requires convCfg(int(c.InterleavingSize), int(c.TotalNumOfElements), int(c.CurrentElementIndex))
//@   panics external < c.Offset || owner(int(external) - int(c.Offset), int(c.InterleavingSize), int(c.TotalNumOfElements)) != int(c.CurrentElementIndex)
//@   label C24.convert.value
//@   ensures int(result) == conv(int(external) - int(c.Offset), int(c.InterleavingSize), int(c.TotalNumOfElements))

//@ fn ConvertAddress
//@   property C24
//@   requires kind != "" ==> convCfg(int(interleavingSize), int(totalNumOfElements), int(currentElementIndex))
//@   panics kind != "" && (addr < offset || owner(int(addr) - int(offset), int(interleavingSize), int(totalNumOfElements)) != int(currentElementIndex))
//@   label C24.convertaddress.identity
//@   ensures kind == "" ==> result == addr
//@   label C24.convertaddress.value
//@   ensures kind != "" ==> int(result) == conv(int(addr) - int(offset), int(interleavingSize), int(totalNumOfElements))

// Every address a >= 0 has a unique decomposition a = (k*n + o)*is + m with 0 <= o < n, 0 <= m < is
// (k = round, o = owning element, m = offset in the stripe). The lemmas below are stated over that
// decomposition (explicit witnesses, so no existential is needed); decomp ties it to owner/conv.

//@ lemma decomp(a, is, n, k, o, m)
//@   property C24
//@   requires is > 0 && n > 0 && k >= 0 && 0 <= o && o < n && 0 <= m && m < is
//@   requires a == (k * n + o) * is + m
//@   label C24.lemma.decomp.round
//@   ensures a / (is * n) == k
//@   label C24.lemma.decomp.rem
//@   ensures a % (is * n) == o * is + m
//@   label C24.lemma.decomp.mod
//@   ensures a % is == m
//@   label C24.lemma.decomp.div
//@   ensures a / is == k * n + o

//@ lemma decompOwner(a, is, n, k, o, m)
//@   property C24
//@   requires is > 0 && n > 0 && k >= 0 && 0 <= o && o < n && 0 <= m && m < is
//@   requires a == (k * n + o) * is + m
//@   use decomp(a, is, n, k, o, m)
//@   label C24.lemma.decomp.owner
//@   ensures owner(a, is, n) == o
//@   label C24.lemma.decomp.conv
//@   ensures conv(a, is, n) == k * is + m

//@ lemma mulMono(a, b, c)
//@   property C24
//@   label C24.lemma.mulmono
//@   ensures a <= b && c >= 0 ==> a * c <= b * c

//@ lemma roundOrder(is, n, o, k1, m1, k2, m2)
//@   property C24
//@   requires is > 0 && n > 0 && 0 <= o && o < n && k1 >= 0 && k2 >= 0 && 0 <= m1 && m1 < is && 0 <= m2 && m2 < is
//@   requires (k1 * n + o) * is + m1 < (k2 * n + o) * is + m2
//@   use mulMono(k2 + 1, k1, n * is)
//@   use mulMono(1, n, is)
//@   label C24.lemma.roundorder
//@   ensures k1 <= k2

// Order preservation (hence injectivity) on the addresses owned by one element:
//@ lemma convMonotone(is, n, o, k1, m1, k2, m2)
//@   property C24
//@   requires is > 0 && n > 0 && 0 <= o && o < n && k1 >= 0 && k2 >= 0 && 0 <= m1 && m1 < is && 0 <= m2 && m2 < is
//@   requires (k1 * n + o) * is + m1 < (k2 * n + o) * is + m2
//@   use decompOwner((k1 * n + o) * is + m1, is, n, k1, o, m1)
//@   use decompOwner((k2 * n + o) * is + m2, is, n, k2, o, m2)
//@   use roundOrder(is, n, o, k1, m1, k2, m2)
//@   use mulMono(k1 + 1, k2, is)
//@   label C24.lemma.monotone
//@   ensures conv((k1 * n + o) * is + m1, is, n) < conv((k2 * n + o) * is + m2, is, n)

// Contiguity inside a stripe, and from the end of a stripe to the element's next stripe:
//@ lemma convStripe(is, n, o, k, m)
//@   property C24
//@   requires is > 0 && n > 0 && 0 <= o && o < n && k >= 0 && 0 <= m && m + 1 < is
//@   use decompOwner((k * n + o) * is + m, is, n, k, o, m)
//@   use decompOwner((k * n + o) * is + m + 1, is, n, k, o, m + 1)
//@   label C24.lemma.stripe.owner
//@   ensures owner((k * n + o) * is + m + 1, is, n) == owner((k * n + o) * is + m, is, n)
//@   label C24.lemma.stripe.contiguous
//@   ensures conv((k * n + o) * is + m + 1, is, n) == conv((k * n + o) * is + m, is, n) + 1

//@ lemma convNextStripe(is, n, o, k)
//@   property C24
//@   requires is > 0 && n > 0 && 0 <= o && o < n && k >= 0
//@   use decompOwner((k * n + o) * is + (is - 1), is, n, k, o, is - 1)
//@   use decompOwner(((k + 1) * n + o) * is, is, n, k + 1, o, 0)
//@   label C24.lemma.nextstripe
//@   ensures conv(((k + 1) * n + o) * is, is, n) == conv((k * n + o) * is + (is - 1), is, n) + 1

//@ fn (*InterleavedAddressPortMapper).Find
//@   property C24
//@   requires f.InterleavingSize > 0 && len(f.LowModules) > 0
//@   label C24.find.limit
//@   ensures f.UseAddressSpaceLimitation && (address >= f.HighAddress || address < f.LowAddress) ==> result == f.ModuleForOtherAddresses
//@   label C24.find.element
//@   ensures !(f.UseAddressSpaceLimitation && (address >= f.HighAddress || address < f.LowAddress)) ==> result == f.LowModules[(int(address) / int(f.InterleavingSize)) % len(f.LowModules)]
//@   assigns nothing

// The mapper expresses only offsets that are multiples of the round size; for those it agrees with the converter:

//@ lemma mapperAgrees(off, is, n, j, k, o, m)
//@   property C24
//@   requires is > 0 && n > 0 && j >= 0 && k >= 0 && 0 <= o && o < n && 0 <= m && m < is
//@   requires off == j * (is * n)
//@   use decompOwner((k * n + o) * is + m, is, n, k, o, m)
//@   use decomp(off + (k * n + o) * is + m, is, n, j + k, o, m)
//@   label C24.lemma.mapper.agrees
//@   ensures owner((k * n + o) * is + m, is, n) == ((off + (k * n + o) * is + m) / is) % n

// ---- C20: Storage is a bounded flat byte array ----
// Representation: s.data maps the base address of an allocation unit to the unit; absent units read as zero.

//@ pred storageWF(s) = s.unitSize > 0 && s.unitSize <= 1<<40 && s.capacity <= 1<<62 && s.data != nil && (forall k uint64 :: k in s.data ==> s.data[k] != nil && len(s.data[k].data) == int(s.unitSize))

// The flat byte-array view (storageFlat and its lemmas) is in zz_contracts_C20view_verif.go.

//@ fn (*Storage).parseAddress
//@   property C20
//@   requires s.unitSize > 0
//@   label C20.parse
//@   ensures int(inUnitAddr) == int(addr) % int(s.unitSize) && int(baseAddr) == int(addr) - int(addr) % int(s.unitSize)
//@   assigns nothing

//@ fn (*Storage).checkRange
//@   property C20
//@   label C20.range
//@   ensures result == nil <==> int(address) + int(length) <= int(s.capacity)
//@   assigns nothing

//@ fn newStorageUnit
//@   property C20
//@   requires uintSize <= 1<<40
//@   label C20.newunit
//@   ensures result != nil && fresh(result) && fresh(result.data) && len(result.data) == int(uintSize)
//@   label C20.newunit.owned
//@   ensures result <= allocTop && ref(result.data) <= allocTop
//@   label C20.newunit.zero
//@   ensures forall j in 0..int(uintSize) :: result.data[j] == 0
//@   assigns nothing

//@ fn (*Storage).createOrGetStorageUnit
//@   property C20
//@   requires storageFlat(s)
//@   use forall q in 0..18446744073709551616 :: multApart(int(s.unitSize), int(address) / int(s.unitSize), q)
//@   use forall q in 0..18446744073709551616 :: multApart(int(s.unitSize), q, int(address) / int(s.unitSize))
//@   label C20.getunit.beyond
//@   ensures address > s.capacity ==> result0 == nil && result1 != nil && nothingAssigned()
//@   label C20.getunit.ok
//@   ensures address <= s.capacity ==> result1 == nil && result0 != nil && ((int(address) - int(address) % int(s.unitSize)) in s.data) && s.data[int(address) - int(address) % int(s.unitSize)] == result0
//@   label C20.getunit.wf
//@   ensures storageFlat(s)
//@   label C20.getunit.others
//@   ensures forall k uint64 :: k != int(address) - int(address) % int(s.unitSize) ==> ((k in s.data) <==> old(k in s.data)) && s.data[k] == old(s.data[k])
//@   label C20.getunit.existing
//@   ensures old((int(address) - int(address) % int(s.unitSize)) in s.data) ==> s.data[int(address) - int(address) % int(s.unitSize)] == old(s.data[int(address) - int(address) % int(s.unitSize)])
//@   label C20.getunit.created
//@   ensures address <= s.capacity && !old((int(address) - int(address) % int(s.unitSize)) in s.data) ==> fresh(result0) && fresh(result0.data) && (forall j in 0..int(s.unitSize) :: result0.data[j] == 0)
//@   assigns elems(s.data)

//@ fn (*Storage).Read
//@   property C20
//@   requires storageFlat(s)
//@   witness rU map = gU
//@   label C20.read.bounds
//@   ensures int(address) + int(len) > int(s.capacity) ==> result1 != nil
//@   label C20.read.ok
//@   ensures int(address) + int(len) <= int(s.capacity) ==> result1 == nil && len(result0) == int(len) && fresh(result0)
//@   label C20.read.noalias
//@   ensures result1 == nil ==> forall k uint64 :: k in s.data ==> ref(s.data[k].data) != ref(result0)
//@   label C20.read.created.fresh
//@   ensures forall k uint64 :: (k in s.data) && !old(k in s.data) ==> fresh(s.data[k].data)
//@   label C20.read.error.unchanged
//@   ensures result1 != nil ==> nothingAssigned()
//@   label C20.read.wf
//@   ensures storageFlat(s)
//@   label C20.read.kept
//@   ensures forall k uint64 :: old(k in s.data) ==> (k in s.data) && s.data[k] == old(s.data[k])
//@   label C20.read.contents.unchanged
//@   ensures forall k uint64 :: old(k in s.data) ==> forall j in 0..usz(s) :: s.data[k].data[j] == old(s.data[k].data[j])
//@   label C20.read.created.zero
//@   ensures forall k uint64 :: (k in s.data) && !old(k in s.data) ==> forall j in 0..usz(s) :: s.data[k].data[j] == 0
//@   label C20.read.covered
//@   ensures result1 == nil ==> forall i in 0..int(len) :: (rU[i] in s.data) && 0 <= rU[i] && rU[i] <= int(address) + i && int(address) + i < rU[i] + usz(s)
//@   label C20.read.bytes
//@   ensures result1 == nil ==> forall i in 0..int(len) :: result0[i] == s.data[rU[i]].data[int(address) + i - rU[i]]
//@   label C20.read.view
//@   ensures result1 == nil ==> forall k uint64 :: k in s.data ==> forall j in 0..usz(s) :: int(address) <= k + j && k + j < int(address) + int(len) ==> result0[k + j - int(address)] == s.data[k].data[j]
//@   assigns elems(s.data)
//@   loop 0: ghost dn = 0
//@   loop 0: backedge dn = int(dataOffset)
//@   loop 0: ghost gU = idperm
//@   loop 0: backedge gU = mapof(i, i >= dn ? int(baseAddr) : gU[i])
//@   loop 0: invariant storageFlat(s)
//@   loop 0: invariant int(currAddr) == int(address) + int(dataOffset) && int(dataOffset) + int(lenLeft) == int(len) && dn == int(dataOffset)
//@   loop 0: invariant int(address) + int(len) <= int(s.capacity)
//@   loop 0: invariant len(res) == int(len) && fresh(res)
//@   loop 0: decreases int(lenLeft)
//@   loop 0: invariant forall k uint64 :: k in s.data ==> ref(s.data[k].data) != ref(res)
//@   loop 0: invariant forall k uint64 :: old(k in s.data) ==> (k in s.data) && s.data[k] == old(s.data[k])
//@   loop 0: invariant forall k uint64 :: old(k in s.data) ==> forall j in 0..usz(s) :: s.data[k].data[j] == old(s.data[k].data[j])
//@   loop 0: invariant forall k uint64 :: (k in s.data) && !old(k in s.data) ==> forall j in 0..usz(s) :: s.data[k].data[j] == 0
//@   loop 0: invariant forall k uint64 :: (k in s.data) && !old(k in s.data) ==> fresh(s.data[k].data)
//@   label C20.read.covered.inv
//@   loop 0: invariant forall i in 0..dn :: (gU[i] in s.data) && 0 <= gU[i] && gU[i] <= int(address) + i && int(address) + i < gU[i] + usz(s)
//@   label C20.read.bytes.inv
//@   loop 0: invariant forall i in 0..dn :: res[i] == s.data[gU[i]].data[int(address) + i - gU[i]]
// ground instance of the line above (so that a misplaced chunk is refuted with a counterexample, not merely undecided)
//@   label C20.read.bytes.first
//@   loop 0: invariant dn > 0 ==> res[0] == s.data[gU[0]].data[int(address) - gU[0]]

//@ fn (*Storage).Write
//@   property C20
//@   requires storageFlat(s)
//@   requires forall k uint64 :: k in s.data ==> ref(s.data[k].data) != ref(data)   // the caller's buffer is not a unit's backing array
//@   witness wU map = gU
//@   label C20.write.bounds
//@   ensures int(address) + len(data) > int(s.capacity) ==> result != nil
//@   label C20.write.ok
//@   ensures int(address) + len(data) <= int(s.capacity) ==> result == nil
//@   label C20.write.created.fresh
//@   ensures forall k uint64 :: (k in s.data) && !old(k in s.data) ==> fresh(s.data[k].data)
//@   label C20.write.error.unchanged
//@   ensures result != nil ==> nothingAssigned()
//@   label C20.write.wf
//@   ensures storageFlat(s)
//@   label C20.write.kept
//@   ensures forall k uint64 :: old(k in s.data) ==> (k in s.data) && s.data[k] == old(s.data[k])
//@   label C20.write.view
//@   ensures result == nil ==> forall k uint64 :: k in s.data ==> forall j in 0..usz(s) :: s.data[k].data[j] == ((int(address) <= k + j && k + j < int(address) + len(data)) ? data[k + j - int(address)] : (old(k in s.data) ? old(s.data[k].data[j]) : 0))
//@   label C20.write.buffer.unchanged
//@   ensures forall i in 0..len(data) :: data[i] == old(data[i])
//@   label C20.write.covered
//@   ensures result == nil ==> forall i in 0..len(data) :: (wU[i] in s.data) && 0 <= wU[i] && wU[i] <= int(address) + i && int(address) + i < wU[i] + usz(s)
//@   assigns elems(s.data), key("E|uint8|")
//@   loop 0: ghost dn = 0
//@   loop 0: backedge dn = int(dataOffset)
//@   loop 0: ghost gU = idperm
//@   loop 0: backedge gU = mapof(i, i >= dn ? int(athead(currAddr)) - int(inUnitAddr) : gU[i])
//@   loop 0: invariant storageFlat(s)
//@   loop 0: invariant int(currAddr) == int(address) + int(dataOffset) && int(dataOffset) <= len(data) && dn == int(dataOffset)
//@   loop 0: invariant int(address) + len(data) <= int(s.capacity)
//@   loop 0: invariant forall k uint64 :: old(k in s.data) ==> (k in s.data) && s.data[k] == old(s.data[k])
//@   loop 0: invariant forall k uint64 :: k in s.data ==> ref(s.data[k].data) != ref(data)
//@   loop 0: invariant forall i in 0..len(data) :: data[i] == old(data[i])
// ground instance of the view (so that a misplaced chunk is refuted with a counterexample, not merely undecided)
//@   loop 0: invariant forall k uint64 :: (k in s.data) && !old(k in s.data) ==> fresh(s.data[k].data)
//@   label C20.write.view.firstbyte
//@   loop 0: invariant dn > 0 ==> s.data[gU[0]].data[int(address) - gU[0]] == data[0]
//@   loop 0: decreases len(data) - int(dataOffset)
//@   label C20.write.covered.inv
//@   loop 0: invariant forall i in 0..dn :: (gU[i] in s.data) && 0 <= gU[i] && gU[i] <= int(address) + i && int(address) + i < gU[i] + usz(s)
//@   loop 0: invariant dn > 0 ==> (gU[dn - 1] in s.data) && 0 <= gU[dn - 1] && gU[dn - 1] < int(currAddr) && int(currAddr) <= gU[dn - 1] + usz(s)
//@   label C20.write.view.inv
//@   loop 0: invariant forall k uint64 :: k in s.data ==> forall j in 0..usz(s) :: s.data[k].data[j] == ((int(address) <= k + j && k + j < int(currAddr)) ? data[k + j - int(address)] : (old(k in s.data) ? old(s.data[k].data[j]) : 0))

// ---- C20 / C07: storage checkpoint loading ----

//@ ghost var loaded set

//@ fn readUint64
//@   property C20
//@   assigns nothing

//@ fn (*Storage).LoadCheckpoint
//@   property C20
//@   requires storageWF(s)
//@   use forall a in 0..18446744073709551616 :: modApartAll(int(s.unitSize), a)
//@   witness nListed int = int(numUnits)      // the unit count read from the stream
//@   label C20.load.error.unchanged
//@   ensures result != nil ==> s.data == old(s.data) && s.capacity == old(s.capacity) && s.unitSize == old(s.unitSize)
//@   label C20.load.wf
//@   ensures result == nil ==> storageWF(s) && s.capacity == old(s.capacity) && s.unitSize == old(s.unitSize)
// a successful load establishes the flat view's representation invariant (closes the chain Load -> Read/Write) ...
//@   label C20.load.flat
//@   ensures result == nil ==> storageFlat(s)
// ... and every loaded unit lies inside the capacity
//@   label C20.load.incap
//@   ensures result == nil ==> (forall k uint64 :: k in s.data ==> k < int(s.capacity))
// every listed unit is present afterwards: none was silently replaced by a later one with the same address
//@   label C20.load.count
//@   ensures result == nil ==> len(s.data) == nListed
//@   label C20.load.exact
//@   ensures result == nil ==> (forall k uint64 :: k in s.data ==> loaded[k])
//@   label C20.load.freshunits
//@   ensures result == nil ==> (forall k uint64 :: k in s.data ==> s.data[k] > old(allocTop))
//@   assigns s.data
//@   loop 0: ghost loaded = emptyset
//@   loop 0: backedge loaded = upd(loaded, addr, true)
//@   loop 0: invariant data != nil && fresh(data) && storageWF(s) && unchanged(s.data) && unchanged(s.capacity) && unchanged(s.unitSize)
//@   loop 0: invariant forall k uint64 :: k in data ==> loaded[k] && data[k] != nil && data[k] > old(allocTop) && len(data[k].data) == int(s.unitSize)
//@   label C20.load.count.inv
//@   loop 0: invariant len(data) == int(i) && i <= numUnits
//@   label C20.load.aligned.inv
//@   loop 0: invariant forall k uint64 :: k in data ==> k % usz(s) == 0
//@   label C20.load.incap.inv
//@   loop 0: invariant forall k uint64 :: k in data ==> k < int(s.capacity)
//@   label C20.load.disjoint.inv
//@   loop 0: invariant forall k1 uint64, k2 uint64 :: (k1 in data) && (k2 in data) && k1 < k2 ==> k1 + usz(s) <= k2
//@   label C20.load.distinct.inv
//@   loop 0: invariant forall k1 uint64, k2 uint64 :: (k1 in data) && (k2 in data) && k1 != k2 ==> data[k1] != data[k2] && ref(data[k1].data) != ref(data[k2].data)
//@   label C20.load.owned.inv
//@   loop 0: invariant forall k uint64 :: k in data ==> data[k] <= allocTop && ref(data[k].data) <= allocTop
