//go:build verif

// Contracts for package endpoint, property C31 (comment-only; read by /verif/engine, never compiled into a build).
// C31: endpoints packetize and reassemble losslessly.
package endpoint

//@ ghost var canSend set
//@ ghost var sendCnt map
//@ ghost var sentTyp map2
//@ ghost var sentVal map2
//@ ghost var inTyp map
//@ ghost var inVal map
//@ ghost var retrCnt map
//@ ghost var issued set
// delivery log of /verif/contracts/noc/directconnection/zz_contracts_C10_verif.go (same names, same meaning; its
// CanDeliver / Deliver contracts are reused): canDlv = the port's incoming buffer has room; the n-th Deliver call (on any
// port) handed message (dlvTyp[n], dlvVal[n]) to the port with identity dlvTo[n]; dlvN = number of Deliver calls so far.
//@ ghost var canDlv set
//@ ghost var dlvN int
//@ ghost var dlvTyp map
//@ ghost var dlvVal map
//@ ghost var dlvTo map
// availCnt[p] = number of NotifyAvailable calls on port p so far (C10's file; its NotifyAvailable contract is reused)
//@ ghost var availCnt map

//@ pred epWF(m) = m.comp != nil && m.comp.TickingComponent != nil && m.comp.TickingComponent.PortOwnerBase != nil && ("NetworkPort" in m.comp.TickingComponent.PortOwnerBase.ports)

//@ fn (*incomingMW).networkPort
//@   property C31
//@   requires epWF(m)
//@   label C31.in.netport
//@   ensures result == m.comp.TickingComponent.PortOwnerBase.ports["NetworkPort"]
//@   assigns nothing

//@ fn (*incomingMW).logMsgE2EEnd
//@   property C31
//@   requires epWF(m)
//@   assigns nothing

// ---- assemble: complete entries (Arrived >= Required) leave the assembling list for the assembled list, in order ----
//@ func asm(m) = m.comp.State.AssemblingMsgs
//@ func asd(m) = m.comp.State.AssembledMsgs
//@ pred incompleteOld(m, j) = old(m.comp.State.AssemblingMsgs[j].NumFlitArrived) < old(m.comp.State.AssemblingMsgs[j].NumFlitRequired)
//@ pred sameEntry(m, i, j) = m.comp.State.AssemblingMsgs[i].MsgID == old(m.comp.State.AssemblingMsgs[j].MsgID) && m.comp.State.AssemblingMsgs[i].MsgTaskID == old(m.comp.State.AssemblingMsgs[j].MsgTaskID) && m.comp.State.AssemblingMsgs[i].Src == old(m.comp.State.AssemblingMsgs[j].Src) && m.comp.State.AssemblingMsgs[i].Dst == old(m.comp.State.AssemblingMsgs[j].Dst) && m.comp.State.AssemblingMsgs[i].RspTo == old(m.comp.State.AssemblingMsgs[j].RspTo) && m.comp.State.AssemblingMsgs[i].TrafficClass == old(m.comp.State.AssemblingMsgs[j].TrafficClass) && m.comp.State.AssemblingMsgs[i].TrafficBytes == old(m.comp.State.AssemblingMsgs[j].TrafficBytes) && m.comp.State.AssemblingMsgs[i].NumFlitRequired == old(m.comp.State.AssemblingMsgs[j].NumFlitRequired) && m.comp.State.AssemblingMsgs[i].NumFlitArrived == old(m.comp.State.AssemblingMsgs[j].NumFlitArrived)
//@ pred carries(m, p, j) = m.comp.State.AssembledMsgs[p].ID == old(m.comp.State.AssemblingMsgs[j].MsgID) && m.comp.State.AssembledMsgs[p].Src == old(m.comp.State.AssemblingMsgs[j].Src) && m.comp.State.AssembledMsgs[p].Dst == old(m.comp.State.AssemblingMsgs[j].Dst) && m.comp.State.AssembledMsgs[p].RspTo == old(m.comp.State.AssemblingMsgs[j].RspTo) && m.comp.State.AssembledMsgs[p].TrafficClass == old(m.comp.State.AssemblingMsgs[j].TrafficClass) && m.comp.State.AssembledMsgs[p].TrafficBytes == old(m.comp.State.AssemblingMsgs[j].TrafficBytes)
//@ pred sameAssembled(m, p, q) = m.comp.State.AssembledMsgs[p].ID == old(m.comp.State.AssembledMsgs[q].ID) && m.comp.State.AssembledMsgs[p].Src == old(m.comp.State.AssembledMsgs[q].Src) && m.comp.State.AssembledMsgs[p].Dst == old(m.comp.State.AssembledMsgs[q].Dst) && m.comp.State.AssembledMsgs[p].RspTo == old(m.comp.State.AssembledMsgs[q].RspTo) && m.comp.State.AssembledMsgs[p].TrafficClass == old(m.comp.State.AssembledMsgs[q].TrafficClass) && m.comp.State.AssembledMsgs[p].TrafficBytes == old(m.comp.State.AssembledMsgs[q].TrafficBytes)
// rank[j] - rank[0] = number of incomplete entries among the first j old entries (the witness is fully determined, up
// to the offset rank[0], by clause C31.assemble.rank; on the early return of an empty list it is unconstrained and unused)
//@ func rnk(rk, j) = rk[j] - rk[0]
//@ pred rankOK(m, rk, k) = forall j in 0..k :: rk[j + 1] == rk[j] + (incompleteOld(m, j) ? 1 : 0)

//@ fn (*incomingMW).assemble
//@   property C31 C29
//@   requires epWF(m)
//@   witness rank map = rk
//@   label C31.assemble.rank
//@   ensures rankOK(m, rank, old(len(m.comp.State.AssemblingMsgs)))
//@   label C31.assemble.lens
//@   ensures len(m.comp.State.AssemblingMsgs) == rnk(rank, old(len(m.comp.State.AssemblingMsgs))) && len(m.comp.State.AssembledMsgs) == old(len(m.comp.State.AssembledMsgs)) + old(len(m.comp.State.AssemblingMsgs)) - rnk(rank, old(len(m.comp.State.AssemblingMsgs)))
//@   label C31.assemble.inplace
//@   ensures ref(m.comp.State.AssemblingMsgs) == old(ref(m.comp.State.AssemblingMsgs)) && off(m.comp.State.AssemblingMsgs) == old(off(m.comp.State.AssemblingMsgs))
//@   label C31.assemble.stay
//@   ensures forall j in 0..old(len(m.comp.State.AssemblingMsgs)) :: incompleteOld(m, j) ==> sameEntry(m, rnk(rank, j), j)
//@   label C31.assemble.move
//@   ensures forall j in 0..old(len(m.comp.State.AssemblingMsgs)) :: !incompleteOld(m, j) ==> carries(m, old(len(m.comp.State.AssembledMsgs)) + j - rnk(rank, j), j)
//@   label C31.assemble.keep
//@   ensures forall p in 0..old(len(m.comp.State.AssembledMsgs)) :: sameAssembled(m, p, p)
//@   label C31.assemble.progress
//@   ensures result <==> len(m.comp.State.AssembledMsgs) > old(len(m.comp.State.AssembledMsgs))
//@   assigns m.comp.State.AssemblingMsgs, elems(m.comp.State.AssemblingMsgs), m.comp.State.AssembledMsgs, elems(m.comp.State.AssembledMsgs)
//@   loop 0: ghost rk = mapof(j, 0)
//@   loop 0: backedge rk = upd(rk, rangeindex + 1, writeIdx)
//@   loop 0: invariant -1 <= rangeindex && rangeindex < old(len(m.comp.State.AssemblingMsgs)) && 0 <= writeIdx && writeIdx <= rangeindex + 1
//@   loop 0: invariant ref(m.comp.State.AssemblingMsgs) == old(ref(m.comp.State.AssemblingMsgs)) && off(m.comp.State.AssemblingMsgs) == old(off(m.comp.State.AssemblingMsgs)) && len(m.comp.State.AssemblingMsgs) == old(len(m.comp.State.AssemblingMsgs))
//@   loop 0: invariant rk[0] == 0 && rankOK(m, rk, rangeindex + 1) && rk[rangeindex + 1] == writeIdx
//@   loop 0: invariant len(m.comp.State.AssembledMsgs) == old(len(m.comp.State.AssembledMsgs)) + rangeindex + 1 - writeIdx
//@   loop 0: invariant forall j in 0..rangeindex + 1 :: 0 <= rk[j] && rk[j] <= j && (incompleteOld(m, j) ==> rk[j] < writeIdx) && (!incompleteOld(m, j) ==> j - rk[j] < rangeindex + 1 - writeIdx)
//@   loop 0: invariant (ref(m.comp.State.AssembledMsgs) == old(ref(m.comp.State.AssembledMsgs)) && off(m.comp.State.AssembledMsgs) == old(off(m.comp.State.AssembledMsgs))) || fresh(m.comp.State.AssembledMsgs)
//@   loop 0: invariant forall j in rangeindex + 1..old(len(m.comp.State.AssemblingMsgs)) :: sameEntry(m, j, j)
//@   loop 0: invariant forall j in 0..rangeindex + 1 :: incompleteOld(m, j) ==> sameEntry(m, rk[j], j)
//@   loop 0: invariant forall j in 0..rangeindex + 1 :: !incompleteOld(m, j) ==> carries(m, old(len(m.comp.State.AssembledMsgs)) + j - rk[j], j)
//@   loop 0: invariant forall p in 0..old(len(m.comp.State.AssembledMsgs)) :: sameAssembled(m, p, p)
//@   loop 0: invariant madeProgress <==> len(m.comp.State.AssembledMsgs) > old(len(m.comp.State.AssembledMsgs))

// ---- tryDeliver: hands a prefix of the assembled list, in order, to device ports; stops at the first port that is full ----
//@ func dlvK() = dlvN - old(dlvN)
//@ func dlvMsg(n) = mkiface(dlvTyp[n], dlvVal[n])
//@ pred deliveredMeta(m, n, i) = hastype(dlvMsg(n), "packetization.AssembledMsg") && as(dlvMsg(n), "packetization.AssembledMsg").MsgMeta.ID == old(m.comp.State.AssembledMsgs[i].ID) && as(dlvMsg(n), "packetization.AssembledMsg").MsgMeta.Src == old(m.comp.State.AssembledMsgs[i].Src) && as(dlvMsg(n), "packetization.AssembledMsg").MsgMeta.Dst == old(m.comp.State.AssembledMsgs[i].Dst) && as(dlvMsg(n), "packetization.AssembledMsg").MsgMeta.RspTo == old(m.comp.State.AssembledMsgs[i].RspTo) && as(dlvMsg(n), "packetization.AssembledMsg").MsgMeta.TrafficClass == old(m.comp.State.AssembledMsgs[i].TrafficClass) && as(dlvMsg(n), "packetization.AssembledMsg").MsgMeta.TrafficBytes == old(m.comp.State.AssembledMsgs[i].TrafficBytes)
//@ pred dlvLogKept() = forall n int :: n < old(dlvN) ==> dlvTyp[n] == old(dlvTyp)[n] && dlvVal[n] == old(dlvVal)[n] && dlvTo[n] == old(dlvTo)[n]

// devicePorts[t] is the first device port whose name (rob.portRemote: the value AsRemote() returns, see the trusted
// contract of messaging.Port.AsRemote in /verif/contracts/mem/rob/zz_contracts_C21_verif.go) is dst
//@ pred firstNamed(m, t, dst) = rob.portRemote(m.devicePorts[t]) == dst && (forall j in 0..t :: rob.portRemote(m.devicePorts[j]) != dst)

//@ fn (*incomingMW).tryDeliver
//@   property C31 C29
//@   requires epWF(m)
//@   panics any
//@   witness stopAt int = jj
//@   witness target map = tgt
//@   witness touched set = tch
//@   witness who map = wh
//@   label C31.deliver.count
//@   ensures 0 <= dlvK() && dlvK() <= old(len(m.comp.State.AssembledMsgs))
//@   label C31.deliver.pop
//@   ensures ref(m.comp.State.AssembledMsgs) == old(ref(m.comp.State.AssembledMsgs)) && off(m.comp.State.AssembledMsgs) == old(off(m.comp.State.AssembledMsgs)) + dlvK() && len(m.comp.State.AssembledMsgs) == old(len(m.comp.State.AssembledMsgs)) - dlvK()
//@   label C31.deliver.inorder
//@   ensures forall k int :: old(dlvN) <= k && k < dlvN ==> deliveredMeta(m, k, k - old(dlvN))
//@   label C31.deliver.target
//@   ensures forall k int :: old(dlvN) <= k && k < dlvN ==> 0 <= target[k] && target[k] < len(m.devicePorts) && dlvTo[k] == ifaceval(m.devicePorts[target[k]])
//@   label C31.deliver.named
//@   ensures forall k int :: old(dlvN) <= k && k < dlvN ==> firstNamed(m, target[k], old(m.comp.State.AssembledMsgs[k - old(dlvN)].Dst))
//@   label C31.deliver.stop.range
//@   ensures dlvK() < old(len(m.comp.State.AssembledMsgs)) ==> 0 <= stopAt && stopAt < len(m.devicePorts)
//@   label C31.deliver.stop.full
//@   ensures dlvK() < old(len(m.comp.State.AssembledMsgs)) ==> !canDlv[ifaceval(m.devicePorts[stopAt])]
//@   label C31.deliver.stop.name
//@   ensures dlvK() < old(len(m.comp.State.AssembledMsgs)) ==> rob.portRemote(m.devicePorts[stopAt]) == old(m.comp.State.AssembledMsgs)[dlvK()].Dst
//@   label C31.deliver.stop.first
//@   ensures dlvK() < old(len(m.comp.State.AssembledMsgs)) ==> (forall j in 0..stopAt :: rob.portRemote(m.devicePorts[j]) != old(m.comp.State.AssembledMsgs)[dlvK()].Dst)
//@   label C31.deliver.log
//@   ensures dlvLogKept()
//@   label C31.deliver.others
//@   ensures (forall p int :: !touched[p] ==> (canDlv[p] <==> old(canDlv)[p]) && inTyp[p] == old(inTyp)[p] && inVal[p] == old(inVal)[p]) && (forall p int :: touched[p] ==> old(dlvN) <= who[p] && who[p] < dlvN && dlvTo[who[p]] == p)
//@   label C31.deliver.progress
//@   ensures result <==> dlvK() > 0
//@   assigns m.comp.State.AssembledMsgs, canDlv, dlvN, dlvTyp, dlvVal, dlvTo, inTyp, inVal
//@   loop 0: ghost tgt = mapof(j, 0)
//@   loop 0: backedge tgt = upd(tgt, dlvN - 1, jj)
//@   loop 0: ghost tch = emptyset
//@   loop 0: backedge tch = upd(tch, dlvTo[dlvN - 1], true)
//@   loop 0: ghost wh = mapof(j, 0)
//@   loop 0: backedge wh = upd(wh, dlvTo[dlvN - 1], dlvN - 1)
//@   loop 0: invariant 0 <= i && i <= len(m.comp.State.AssembledMsgs) && numDelivered == i && dlvN == old(dlvN) + i && (madeProgress <==> i > 0)
//@   loop 0: invariant ref(m.comp.State.AssembledMsgs) == old(ref(m.comp.State.AssembledMsgs)) && off(m.comp.State.AssembledMsgs) == old(off(m.comp.State.AssembledMsgs)) && len(m.comp.State.AssembledMsgs) == old(len(m.comp.State.AssembledMsgs))
//@   loop 0: invariant forall k int :: old(dlvN) <= k && k < dlvN ==> hastype(dlvMsg(k), "packetization.AssembledMsg") && dlvVal[k] <= allocTop
//@   loop 0: invariant forall k int :: old(dlvN) <= k && k < dlvN ==> as(dlvMsg(k), "packetization.AssembledMsg").MsgMeta.ID == old(m.comp.State.AssembledMsgs[k - old(dlvN)].ID)
//@   loop 0: invariant forall k int :: old(dlvN) <= k && k < dlvN ==> as(dlvMsg(k), "packetization.AssembledMsg").MsgMeta.Src == old(m.comp.State.AssembledMsgs[k - old(dlvN)].Src)
//@   loop 0: invariant forall k int :: old(dlvN) <= k && k < dlvN ==> as(dlvMsg(k), "packetization.AssembledMsg").MsgMeta.Dst == old(m.comp.State.AssembledMsgs[k - old(dlvN)].Dst)
//@   loop 0: invariant forall k int :: old(dlvN) <= k && k < dlvN ==> as(dlvMsg(k), "packetization.AssembledMsg").MsgMeta.RspTo == old(m.comp.State.AssembledMsgs[k - old(dlvN)].RspTo)
//@   loop 0: invariant forall k int :: old(dlvN) <= k && k < dlvN ==> as(dlvMsg(k), "packetization.AssembledMsg").MsgMeta.TrafficClass == old(m.comp.State.AssembledMsgs[k - old(dlvN)].TrafficClass)
//@   loop 0: invariant forall k int :: old(dlvN) <= k && k < dlvN ==> as(dlvMsg(k), "packetization.AssembledMsg").MsgMeta.TrafficBytes == old(m.comp.State.AssembledMsgs[k - old(dlvN)].TrafficBytes)
//@   loop 0: invariant forall k int :: old(dlvN) <= k && k < dlvN ==> 0 <= tgt[k] && tgt[k] < len(m.devicePorts) && dlvTo[k] == ifaceval(m.devicePorts[tgt[k]])
//@   loop 0: invariant forall k int :: old(dlvN) <= k && k < dlvN ==> firstNamed(m, tgt[k], old(m.comp.State.AssembledMsgs[k - old(dlvN)].Dst))
//@   loop 0: invariant dlvLogKept()
//@   loop 0: invariant forall p int :: !tch[p] ==> (canDlv[p] <==> old(canDlv)[p]) && inTyp[p] == old(inTyp)[p] && inVal[p] == old(inVal)[p]
//@   loop 0: invariant forall p int :: tch[p] ==> old(dlvN) <= wh[p] && wh[p] < dlvN && dlvTo[wh[p]] == p
//@   loop 1: ghost jj = 0
//@   loop 1: backedge jj = jj + 1
//@   loop 1: invariant dstPort == nil && jj == rangeindex + 1 && -1 <= rangeindex && rangeindex < len(m.devicePorts)
//@   loop 1: invariant forall j in 0..rangeindex + 1 :: rob.portRemote(m.devicePorts[j]) != dst

// ---- recv ----
//@ fn (*incomingMW).logFlitE2ETaskFromFlit
//@   property C31
//@   requires epWF(m)
//@   assigns nothing

// tracing.StartTask only notifies hooks (user callbacks); same trust as tracing.EndTask / AddMilestone (C19's, C21's files).
//@ ext tracing.StartTask(domain, start)
//@   trusted
//@   assigns nothing

// recv retrieves k flits from the network port. Witnesses (step n = the n-th flit retrieved by this call, 0 <= n < k):
//   fT/fV[n]  the flit (interface value) retrieved in step n;  pos[n]  index of the assembling entry charged with it
//   cum[n][j] number of steps before n that charged entry j;   mk[j]   the step that created entry j (new entries only)
//@ func netP(m) = ifaceval(m.comp.TickingComponent.PortOwnerBase.ports["NetworkPort"])
//@ func recvK(m) = retrCnt[netP(m)] - old(retrCnt)[netP(m)]
//@ func flitAt(fT, fV, n) = as(mkiface(fT[n], fV[n]), "packetization.Flit")
//@ pred asmCountsOK(m) = forall j in 0..len(m.comp.State.AssemblingMsgs) :: 0 <= m.comp.State.AssemblingMsgs[j].NumFlitArrived && m.comp.State.AssemblingMsgs[j].NumFlitArrived < 1<<62
//@ pred asmDistinct(m) = forall a in 0..len(m.comp.State.AssemblingMsgs) :: forall b in 0..len(m.comp.State.AssemblingMsgs) :: a != b ==> m.comp.State.AssemblingMsgs[a].MsgID != m.comp.State.AssemblingMsgs[b].MsgID
//@ pred sameIdentity(m, i, j) = m.comp.State.AssemblingMsgs[i].MsgID == old(m.comp.State.AssemblingMsgs[j].MsgID) && m.comp.State.AssemblingMsgs[i].MsgTaskID == old(m.comp.State.AssemblingMsgs[j].MsgTaskID) && m.comp.State.AssemblingMsgs[i].Src == old(m.comp.State.AssemblingMsgs[j].Src) && m.comp.State.AssemblingMsgs[i].Dst == old(m.comp.State.AssemblingMsgs[j].Dst) && m.comp.State.AssemblingMsgs[i].RspTo == old(m.comp.State.AssemblingMsgs[j].RspTo) && m.comp.State.AssemblingMsgs[i].TrafficClass == old(m.comp.State.AssemblingMsgs[j].TrafficClass) && m.comp.State.AssemblingMsgs[i].TrafficBytes == old(m.comp.State.AssemblingMsgs[j].TrafficBytes) && m.comp.State.AssemblingMsgs[i].NumFlitRequired == old(m.comp.State.AssemblingMsgs[j].NumFlitRequired)
//@ pred createdFrom(m, j, fT, fV, n) = m.comp.State.AssemblingMsgs[j].MsgID == flitAt(fT, fV, n).Msg.ID && m.comp.State.AssemblingMsgs[j].MsgTaskID == flitAt(fT, fV, n).MsgTaskID && m.comp.State.AssemblingMsgs[j].Src == flitAt(fT, fV, n).Msg.Src && m.comp.State.AssemblingMsgs[j].Dst == flitAt(fT, fV, n).Msg.Dst && m.comp.State.AssemblingMsgs[j].RspTo == flitAt(fT, fV, n).Msg.RspTo && m.comp.State.AssemblingMsgs[j].TrafficClass == flitAt(fT, fV, n).Msg.TrafficClass && m.comp.State.AssemblingMsgs[j].TrafficBytes == flitAt(fT, fV, n).Msg.TrafficBytes && m.comp.State.AssemblingMsgs[j].NumFlitRequired == flitAt(fT, fV, n).NumFlitInMsg
// (the engine has no literal for a two-level map: the ghost starts from the never-assigned ghost global c31Base2 and counts
// are read relative to row 0: cnt(cum, n, j) = cum[n][j] - cum[0][j])
//@ ghost var c31Base2 map2
//@ func cnt(cum, n, j) = cum[n][j] - cum[0][j]
//@ pred cumOK(cum, pos, k) = forall n in 0..k :: cum[n + 1] == upd(cum[n], pos[n], cum[n][pos[n]] + 1)

//@ fn (*incomingMW).recv
//@   property C31 C29
//@   requires epWF(m) && asmCountsOK(m) && m.comp.spec.NumInputChannels < 1<<61
//@   panics any
//@   label C31.recv.count
//@   ensures 0 <= recvK(m) && recvK(m) <= max(0, m.comp.spec.NumInputChannels) && (result <==> recvK(m) > 0)
//@   label C31.recv.port
//@   ensures retrCnt == upd(old(retrCnt), netP(m), retrCnt[netP(m)]) && (forall p int :: p != netP(m) ==> inTyp[p] == old(inTyp)[p] && inVal[p] == old(inVal)[p])
//@   label C31.recv.first
//@   ensures recvK(m) > 0 ==> fT[0] == old(inTyp)[netP(m)] && fV[0] == old(inVal)[netP(m)]
//@   label C31.recv.flits
//@   ensures forall n in 0..recvK(m) :: hastype(mkiface(fT[n], fV[n]), "packetization.Flit")
//@   label C31.recv.grow
//@   ensures len(m.comp.State.AssemblingMsgs) >= old(len(m.comp.State.AssemblingMsgs)) && (forall j in 0..old(len(m.comp.State.AssemblingMsgs)) :: sameIdentity(m, j, j))
//@   label C31.recv.charged
//@   ensures forall n in 0..recvK(m) :: 0 <= pos[n] && pos[n] < len(m.comp.State.AssemblingMsgs) && m.comp.State.AssemblingMsgs[pos[n]].MsgID == flitAt(fT, fV, n).Msg.ID
//@   label C31.recv.firstmatch
//@   ensures forall n in 0..recvK(m) :: forall j in 0..pos[n] :: m.comp.State.AssemblingMsgs[j].MsgID != flitAt(fT, fV, n).Msg.ID
//@   label C31.recv.distinct
//@   ensures old(asmDistinct(m)) ==> asmDistinct(m)
//@   label C31.recv.cum
//@   ensures cumOK(cum, pos, recvK(m))
//@   label C31.recv.arrived
//@   ensures forall j in 0..len(m.comp.State.AssemblingMsgs) :: m.comp.State.AssemblingMsgs[j].NumFlitArrived == (j < old(len(m.comp.State.AssemblingMsgs)) ? old(m.comp.State.AssemblingMsgs[j].NumFlitArrived) : 0) + cnt(cum, recvK(m), j)
//@   label C31.recv.created
//@   ensures forall j in old(len(m.comp.State.AssemblingMsgs))..len(m.comp.State.AssemblingMsgs) :: 0 <= mk[j] && mk[j] < recvK(m) && pos[mk[j]] == j && createdFrom(m, j, fT, fV, mk[j])
//@   assigns m.comp.State.AssemblingMsgs, elems(m.comp.State.AssemblingMsgs), inTyp, inVal, retrCnt
//@   loop 0: ghost fT = mapof(j, 0)
//@   loop 0: backedge fT = upd(fT, athead(i), typeid(receivedI))
//@   loop 0: ghost fV = mapof(j, 0)
//@   loop 0: backedge fV = upd(fV, athead(i), ifaceval(receivedI))
//@   loop 0: ghost pos = mapof(j, 0)
//@   loop 0: backedge pos = upd(pos, athead(i), assemblingIdx < 0 ? len(m.comp.State.AssemblingMsgs) - 1 : assemblingIdx)
//@   loop 0: ghost mk = mapof(j, 0)
//@   loop 0: backedge mk = assemblingIdx < 0 ? upd(mk, len(m.comp.State.AssemblingMsgs) - 1, athead(i)) : mk
//@   loop 0: ghost cum = c31Base2
//@   loop 0: backedge cum = upd(cum, athead(i) + 1, upd(cum[athead(i)], (assemblingIdx < 0 ? len(m.comp.State.AssemblingMsgs) - 1 : assemblingIdx), cum[athead(i)][(assemblingIdx < 0 ? len(m.comp.State.AssemblingMsgs) - 1 : assemblingIdx)] + 1))
//@   loop 0: invariant 0 <= i && i <= max(0, m.comp.spec.NumInputChannels) && (madeProgress <==> i > 0) && epWF(m)
//@   loop 0: invariant retrCnt == upd(old(retrCnt), netP(m), old(retrCnt)[netP(m)] + i) && (forall p int :: p != netP(m) ==> inTyp[p] == old(inTyp)[p] && inVal[p] == old(inVal)[p])
//@   loop 0: invariant i == 0 ==> inTyp[netP(m)] == old(inTyp)[netP(m)] && inVal[netP(m)] == old(inVal)[netP(m)]
//@   loop 0: invariant i > 0 ==> fT[0] == old(inTyp)[netP(m)] && fV[0] == old(inVal)[netP(m)]
//@   loop 0: invariant forall n in 0..i :: hastype(mkiface(fT[n], fV[n]), "packetization.Flit")
//@   loop 0: invariant (ref(m.comp.State.AssemblingMsgs) == old(ref(m.comp.State.AssemblingMsgs)) && off(m.comp.State.AssemblingMsgs) == old(off(m.comp.State.AssemblingMsgs))) || fresh(m.comp.State.AssemblingMsgs)
//@   loop 0: invariant len(m.comp.State.AssemblingMsgs) >= old(len(m.comp.State.AssemblingMsgs)) && len(m.comp.State.AssemblingMsgs) <= old(len(m.comp.State.AssemblingMsgs)) + i
//@   loop 0: invariant forall j in 0..old(len(m.comp.State.AssemblingMsgs)) :: sameIdentity(m, j, j)
//@   loop 0: invariant forall n in 0..i :: 0 <= pos[n] && pos[n] < len(m.comp.State.AssemblingMsgs) && m.comp.State.AssemblingMsgs[pos[n]].MsgID == flitAt(fT, fV, n).Msg.ID
//@   loop 0: invariant forall n in 0..i :: forall j in 0..pos[n] :: m.comp.State.AssemblingMsgs[j].MsgID != flitAt(fT, fV, n).Msg.ID
//@   loop 0: invariant old(asmDistinct(m)) ==> asmDistinct(m)
//@   loop 0: invariant cumOK(cum, pos, i)
//@   loop 0: invariant forall j int :: 0 <= cnt(cum, i, j) && cnt(cum, i, j) <= i
//@   loop 0: invariant forall j int :: j < 0 || j >= len(m.comp.State.AssemblingMsgs) ==> cnt(cum, i, j) == 0
//@   loop 0: invariant forall j in 0..len(m.comp.State.AssemblingMsgs) :: m.comp.State.AssemblingMsgs[j].NumFlitArrived == (j < old(len(m.comp.State.AssemblingMsgs)) ? old(m.comp.State.AssemblingMsgs[j].NumFlitArrived) : 0) + cnt(cum, i, j)
//@   loop 0: invariant forall j in old(len(m.comp.State.AssemblingMsgs))..len(m.comp.State.AssemblingMsgs) :: 0 <= mk[j] && mk[j] < i && pos[mk[j]] == j && createdFrom(m, j, fT, fV, mk[j])
//@   loop 1: invariant assemblingIdx == -1 && -1 <= rangeindex && rangeindex < len(m.comp.State.AssemblingMsgs)
//@   loop 1: invariant forall j in 0..rangeindex + 1 :: m.comp.State.AssemblingMsgs[j].MsgID != flit.Msg.ID

// ================= outgoing side =================
// math.Ceil is a pure function of its argument; floating point values are opaque tokens in the engine, so nothing is assumed
// about the value (see the assumption recorded at msgMetaToFlits).
//@ ext math.Ceil(x)
//@   trusted
//@   pure

//@ pred idGenOK() = timing.idGeneratorInstantiated ==> timing.idGenerator != nil
//@ pred issuedGrows() = forall k int :: old(issued)[k] ==> issued[k]

// msgMetaToFlits. The encoded size enc = TrafficBytes + int(math.Ceil(float64(TrafficBytes) * EncodingOverhead)) is computed in
// floating point; float arithmetic and the float->int conversion are UNINTERPRETED in the engine and the spec language cannot
// name their results (nor the local `trafficByte` at a return), so the clause "number of flits = ceil(enc / FlitByteSize) >= 1"
// is NOT decided for a non-empty payload: it is exactly one flit for an empty payload (C31.flits.empty), and for a non-empty
// one only the integer core is proved, as the lemma flitCountFormula below (not bound to the code by the engine). Everything
// else is stated relative to the count the code finally computes, len(result). ASSUMPTION recorded: enc >= 1 (true for every
// EncodingOverhead >= 0 short of overflow; a negative overhead below -1 gives enc <= 0, i.e. zero flits or a makeslice panic).
//@ lemma flitCountFormula(enc, fbs, n)
//@   property C31
//@   requires enc >= 1 && fbs > 0 && n == (enc - 1) / fbs + 1
//@   label C31.lemma.flitcount
//@   ensures n >= 1 && (n - 1) * fbs < enc && enc <= n * fbs
//@ pred carriesMsg(f, meta) = f.Msg.ID == meta.ID && f.Msg.Src == meta.Src && f.Msg.Dst == meta.Dst && f.Msg.RspTo == meta.RspTo && f.Msg.TrafficClass == meta.TrafficClass && f.Msg.TrafficBytes == meta.TrafficBytes
//@ fn msgMetaToFlits
//@   property C31
//@   requires idGenOK() && spec.FlitByteSize > 0
//@   panics any
//@   label C31.flits.empty
//@   ensures meta.TrafficBytes <= 0 ==> len(result) == 1
//@   label C31.flits.seq
//@   ensures forall i in 0..len(result) :: result[i].SeqID == i && result[i].NumFlitInMsg == len(result)
//@   label C31.flits.carry
//@   ensures forall i in 0..len(result) :: carriesMsg(result[i], meta) && result[i].MsgTaskID == msgTaskID
//@   label C31.flits.route
//@   ensures forall i in 0..len(result) :: result[i].MsgMeta.Src == networkPortRemote && result[i].MsgMeta.Dst == defaultSwitchDst
//@   label C31.flits.fresh
//@   ensures fresh(result) && cap(result) == len(result)
//@   label C31.flits.idgen
//@   ensures idGenOK() && issuedGrows()
//@   assigns issued, key("G|github.com/sarchlab/akita/v5/timing.idGenerator|"), key("G|github.com/sarchlab/akita/v5/timing.idGeneratorInstantiated|"), key("O|timing.sequentialIDGenerator|nextID"), key("O|timing.parallelIDGenerator|nextID")
//@   loop 0: invariant 0 <= i && i <= numFlit && len(flits) == numFlit && cap(flits) == numFlit && fresh(flits) && idGenOK() && issuedGrows()
//@   loop 0: invariant forall j in 0..i :: flits[j].SeqID == j && flits[j].NumFlitInMsg == numFlit && carriesMsg(flits[j], meta) && flits[j].MsgTaskID == msgTaskID && flits[j].MsgMeta.Src == networkPortRemote && flits[j].MsgMeta.Dst == defaultSwitchDst

//@ fn (*outgoingMW).networkPort
//@   property C31
//@   requires epWF(m)
//@   label C31.out.netport
//@   ensures result == m.comp.TickingComponent.PortOwnerBase.ports["NetworkPort"]
//@   assigns nothing
//@ fn (*outgoingMW).logMsgE2EStart
//@   property C31
//@   requires epWF(m)
//@   assigns nothing
//@ fn (*outgoingMW).logFlitE2ETask
//@   property C31
//@   requires epWF(m) && meta != nil
//@   assigns nothing

// flit p of the send buffer now == flit q of the send buffer on entry (all fifteen scalar fields)
//@ pred sameFlit(m, p, q) = m.comp.State.FlitsToSend[p].MsgMeta.ID == old(m.comp.State.FlitsToSend[q].MsgMeta.ID) && m.comp.State.FlitsToSend[p].MsgMeta.Src == old(m.comp.State.FlitsToSend[q].MsgMeta.Src) && m.comp.State.FlitsToSend[p].MsgMeta.Dst == old(m.comp.State.FlitsToSend[q].MsgMeta.Dst) && m.comp.State.FlitsToSend[p].MsgMeta.TrafficClass == old(m.comp.State.FlitsToSend[q].MsgMeta.TrafficClass) && m.comp.State.FlitsToSend[p].MsgMeta.TrafficBytes == old(m.comp.State.FlitsToSend[q].MsgMeta.TrafficBytes) && m.comp.State.FlitsToSend[p].MsgMeta.RspTo == old(m.comp.State.FlitsToSend[q].MsgMeta.RspTo) && m.comp.State.FlitsToSend[p].SeqID == old(m.comp.State.FlitsToSend[q].SeqID) && m.comp.State.FlitsToSend[p].NumFlitInMsg == old(m.comp.State.FlitsToSend[q].NumFlitInMsg) && m.comp.State.FlitsToSend[p].Msg.ID == old(m.comp.State.FlitsToSend[q].Msg.ID) && m.comp.State.FlitsToSend[p].Msg.Src == old(m.comp.State.FlitsToSend[q].Msg.Src) && m.comp.State.FlitsToSend[p].Msg.Dst == old(m.comp.State.FlitsToSend[q].Msg.Dst) && m.comp.State.FlitsToSend[p].Msg.TrafficClass == old(m.comp.State.FlitsToSend[q].Msg.TrafficClass) && m.comp.State.FlitsToSend[p].Msg.TrafficBytes == old(m.comp.State.FlitsToSend[q].Msg.TrafficBytes) && m.comp.State.FlitsToSend[p].Msg.RspTo == old(m.comp.State.FlitsToSend[q].Msg.RspTo) && m.comp.State.FlitsToSend[p].MsgTaskID == old(m.comp.State.FlitsToSend[q].MsgTaskID)
// the message carried by flit p is entry c of the message buffer on entry
//@ pred carriesBuf(m, p, c) = m.comp.State.FlitsToSend[p].Msg.ID == old(m.comp.State.MsgOutBuf[c].ID) && m.comp.State.FlitsToSend[p].Msg.Src == old(m.comp.State.MsgOutBuf[c].Src) && m.comp.State.FlitsToSend[p].Msg.Dst == old(m.comp.State.MsgOutBuf[c].Dst) && m.comp.State.FlitsToSend[p].Msg.RspTo == old(m.comp.State.MsgOutBuf[c].RspTo) && m.comp.State.FlitsToSend[p].Msg.TrafficClass == old(m.comp.State.MsgOutBuf[c].TrafficClass) && m.comp.State.FlitsToSend[p].Msg.TrafficBytes == old(m.comp.State.MsgOutBuf[c].TrafficBytes)

// ---- prepareFlits: converts a prefix of the message buffer, in order; message c becomes the contiguous run of flits
// [start[c], start[c+1]) appended to the send buffer, numbered 0.. in order, each carrying message c's metadata ----
//@ const maxFlits = 64
//@ func prepK(m) = old(len(m.comp.State.MsgOutBuf)) - len(m.comp.State.MsgOutBuf)
//@ fn (*outgoingMW).prepareFlits
//@   property C31
//@   requires epWF(m) && idGenOK() && m.comp.spec.FlitByteSize > 0
//@   panics any
//@   witness start map = st
//@   label C31.prepare.pop
//@   ensures 0 <= prepK(m) && prepK(m) <= old(len(m.comp.State.MsgOutBuf)) && ref(m.comp.State.MsgOutBuf) == old(ref(m.comp.State.MsgOutBuf)) && off(m.comp.State.MsgOutBuf) == old(off(m.comp.State.MsgOutBuf)) + prepK(m) && (result <==> prepK(m) > 0)
//@   label C31.prepare.runs
//@   ensures start[0] == old(len(m.comp.State.FlitsToSend)) && start[prepK(m)] == len(m.comp.State.FlitsToSend) && (forall c in 0..prepK(m) :: start[c] <= start[c + 1] && start[c] < maxFlits)
//@   label C31.prepare.stop
//@   ensures len(m.comp.State.MsgOutBuf) == 0 || len(m.comp.State.FlitsToSend) >= maxFlits
//@   label C31.prepare.kept
//@   ensures forall p in 0..old(len(m.comp.State.FlitsToSend)) :: sameFlit(m, p, p)
//@   label C31.prepare.flits
//@   ensures forall c in 0..prepK(m) :: forall p in start[c]..start[c + 1] :: m.comp.State.FlitsToSend[p].SeqID == p - start[c] && m.comp.State.FlitsToSend[p].NumFlitInMsg == start[c + 1] - start[c] && carriesBuf(m, p, c)
//@   label C31.prepare.idgen
//@   ensures idGenOK() && issuedGrows()
//@   assigns m.comp.State.MsgOutBuf, m.comp.State.FlitsToSend, elems(m.comp.State.FlitsToSend), issued, key("G|github.com/sarchlab/akita/v5/timing.idGenerator|"), key("G|github.com/sarchlab/akita/v5/timing.idGeneratorInstantiated|"), key("O|timing.sequentialIDGenerator|nextID"), key("O|timing.parallelIDGenerator|nextID")
//@   loop 0: ghost st = mapof(j, len(m.comp.State.FlitsToSend))
//@   loop 0: backedge st = upd(st, old(len(m.comp.State.MsgOutBuf)) - len(m.comp.State.MsgOutBuf), len(m.comp.State.FlitsToSend))
//@   loop 0: invariant epWF(m) && idGenOK() && issuedGrows() && 0 <= prepK(m) && prepK(m) <= old(len(m.comp.State.MsgOutBuf)) && ref(m.comp.State.MsgOutBuf) == old(ref(m.comp.State.MsgOutBuf)) && off(m.comp.State.MsgOutBuf) == old(off(m.comp.State.MsgOutBuf)) + prepK(m) && (madeProgress <==> prepK(m) > 0)
//@   loop 0: invariant st[0] == old(len(m.comp.State.FlitsToSend)) && st[prepK(m)] == len(m.comp.State.FlitsToSend) && (forall c in 0..prepK(m) :: st[c] <= st[c + 1] && st[c] < maxFlits)
//@   loop 0: invariant len(m.comp.State.FlitsToSend) >= old(len(m.comp.State.FlitsToSend)) && (forall c in 0..prepK(m) + 1 :: old(len(m.comp.State.FlitsToSend)) <= st[c] && st[c] <= len(m.comp.State.FlitsToSend))
//@   loop 0: invariant (ref(m.comp.State.FlitsToSend) == old(ref(m.comp.State.FlitsToSend)) && off(m.comp.State.FlitsToSend) == old(off(m.comp.State.FlitsToSend))) || fresh(m.comp.State.FlitsToSend)
//@   loop 0: invariant forall p in 0..old(len(m.comp.State.FlitsToSend)) :: m.comp.State.FlitsToSend[p].MsgMeta.ID == old(m.comp.State.FlitsToSend[p].MsgMeta.ID)
//@   loop 0: invariant forall p in 0..old(len(m.comp.State.FlitsToSend)) :: m.comp.State.FlitsToSend[p].MsgMeta.Src == old(m.comp.State.FlitsToSend[p].MsgMeta.Src)
//@   loop 0: invariant forall p in 0..old(len(m.comp.State.FlitsToSend)) :: m.comp.State.FlitsToSend[p].MsgMeta.Dst == old(m.comp.State.FlitsToSend[p].MsgMeta.Dst)
//@   loop 0: invariant forall p in 0..old(len(m.comp.State.FlitsToSend)) :: m.comp.State.FlitsToSend[p].MsgMeta.TrafficClass == old(m.comp.State.FlitsToSend[p].MsgMeta.TrafficClass)
//@   loop 0: invariant forall p in 0..old(len(m.comp.State.FlitsToSend)) :: m.comp.State.FlitsToSend[p].MsgMeta.TrafficBytes == old(m.comp.State.FlitsToSend[p].MsgMeta.TrafficBytes)
//@   loop 0: invariant forall p in 0..old(len(m.comp.State.FlitsToSend)) :: m.comp.State.FlitsToSend[p].MsgMeta.RspTo == old(m.comp.State.FlitsToSend[p].MsgMeta.RspTo)
//@   loop 0: invariant forall p in 0..old(len(m.comp.State.FlitsToSend)) :: m.comp.State.FlitsToSend[p].SeqID == old(m.comp.State.FlitsToSend[p].SeqID)
//@   loop 0: invariant forall p in 0..old(len(m.comp.State.FlitsToSend)) :: m.comp.State.FlitsToSend[p].NumFlitInMsg == old(m.comp.State.FlitsToSend[p].NumFlitInMsg)
//@   loop 0: invariant forall p in 0..old(len(m.comp.State.FlitsToSend)) :: m.comp.State.FlitsToSend[p].Msg.ID == old(m.comp.State.FlitsToSend[p].Msg.ID)
//@   loop 0: invariant forall p in 0..old(len(m.comp.State.FlitsToSend)) :: m.comp.State.FlitsToSend[p].Msg.Src == old(m.comp.State.FlitsToSend[p].Msg.Src)
//@   loop 0: invariant forall p in 0..old(len(m.comp.State.FlitsToSend)) :: m.comp.State.FlitsToSend[p].Msg.Dst == old(m.comp.State.FlitsToSend[p].Msg.Dst)
//@   loop 0: invariant forall p in 0..old(len(m.comp.State.FlitsToSend)) :: m.comp.State.FlitsToSend[p].Msg.TrafficClass == old(m.comp.State.FlitsToSend[p].Msg.TrafficClass)
//@   loop 0: invariant forall p in 0..old(len(m.comp.State.FlitsToSend)) :: m.comp.State.FlitsToSend[p].Msg.TrafficBytes == old(m.comp.State.FlitsToSend[p].Msg.TrafficBytes)
//@   loop 0: invariant forall p in 0..old(len(m.comp.State.FlitsToSend)) :: m.comp.State.FlitsToSend[p].Msg.RspTo == old(m.comp.State.FlitsToSend[p].Msg.RspTo)
//@   loop 0: invariant forall p in 0..old(len(m.comp.State.FlitsToSend)) :: m.comp.State.FlitsToSend[p].MsgTaskID == old(m.comp.State.FlitsToSend[p].MsgTaskID)
//@   loop 0: invariant forall c in 0..prepK(m) :: forall p in st[c]..st[c + 1] :: m.comp.State.FlitsToSend[p].SeqID == p - st[c]
//@   loop 0: invariant forall c in 0..prepK(m) :: forall p in st[c]..st[c + 1] :: m.comp.State.FlitsToSend[p].NumFlitInMsg == st[c + 1] - st[c]
//@   loop 0: invariant forall c in 0..prepK(m) :: forall p in st[c]..st[c + 1] :: m.comp.State.FlitsToSend[p].Msg.ID == old(m.comp.State.MsgOutBuf[c].ID)
//@   loop 0: invariant forall c in 0..prepK(m) :: forall p in st[c]..st[c + 1] :: m.comp.State.FlitsToSend[p].Msg.Src == old(m.comp.State.MsgOutBuf[c].Src)
//@   loop 0: invariant forall c in 0..prepK(m) :: forall p in st[c]..st[c + 1] :: m.comp.State.FlitsToSend[p].Msg.Dst == old(m.comp.State.MsgOutBuf[c].Dst)
//@   loop 0: invariant forall c in 0..prepK(m) :: forall p in st[c]..st[c + 1] :: m.comp.State.FlitsToSend[p].Msg.RspTo == old(m.comp.State.MsgOutBuf[c].RspTo)
//@   loop 0: invariant forall c in 0..prepK(m) :: forall p in st[c]..st[c + 1] :: m.comp.State.FlitsToSend[p].Msg.TrafficClass == old(m.comp.State.MsgOutBuf[c].TrafficClass)
//@   loop 0: invariant forall c in 0..prepK(m) :: forall p in st[c]..st[c + 1] :: m.comp.State.FlitsToSend[p].Msg.TrafficBytes == old(m.comp.State.MsgOutBuf[c].TrafficBytes)
//@   loop 1: invariant -1 <= rangeindex && rangeindex < len(flits)

// ---- sendFlitOut: sends a prefix of the send buffer, in order and unchanged, on the network port ----
//@ func sentAt(p, n) = mkiface(sentTyp[p][n], sentVal[p][n])
//@ func sendK(m) = sendCnt[netP(m)] - old(sendCnt)[netP(m)]
// the n-th message ever sent on the network port is flit q of the send buffer on entry (boxed by value: all fifteen fields)
//@ pred sentIsFlit(m, n, q) = hastype(sentAt(netP(m), n), "packetization.Flit") && as(sentAt(netP(m), n), "packetization.Flit").MsgMeta.ID == old(m.comp.State.FlitsToSend[q].MsgMeta.ID) && as(sentAt(netP(m), n), "packetization.Flit").MsgMeta.Src == old(m.comp.State.FlitsToSend[q].MsgMeta.Src) && as(sentAt(netP(m), n), "packetization.Flit").MsgMeta.Dst == old(m.comp.State.FlitsToSend[q].MsgMeta.Dst) && as(sentAt(netP(m), n), "packetization.Flit").MsgMeta.TrafficClass == old(m.comp.State.FlitsToSend[q].MsgMeta.TrafficClass) && as(sentAt(netP(m), n), "packetization.Flit").MsgMeta.TrafficBytes == old(m.comp.State.FlitsToSend[q].MsgMeta.TrafficBytes) && as(sentAt(netP(m), n), "packetization.Flit").MsgMeta.RspTo == old(m.comp.State.FlitsToSend[q].MsgMeta.RspTo) && as(sentAt(netP(m), n), "packetization.Flit").SeqID == old(m.comp.State.FlitsToSend[q].SeqID) && as(sentAt(netP(m), n), "packetization.Flit").NumFlitInMsg == old(m.comp.State.FlitsToSend[q].NumFlitInMsg) && as(sentAt(netP(m), n), "packetization.Flit").Msg.ID == old(m.comp.State.FlitsToSend[q].Msg.ID) && as(sentAt(netP(m), n), "packetization.Flit").Msg.Src == old(m.comp.State.FlitsToSend[q].Msg.Src) && as(sentAt(netP(m), n), "packetization.Flit").Msg.Dst == old(m.comp.State.FlitsToSend[q].Msg.Dst) && as(sentAt(netP(m), n), "packetization.Flit").Msg.TrafficClass == old(m.comp.State.FlitsToSend[q].Msg.TrafficClass) && as(sentAt(netP(m), n), "packetization.Flit").Msg.TrafficBytes == old(m.comp.State.FlitsToSend[q].Msg.TrafficBytes) && as(sentAt(netP(m), n), "packetization.Flit").Msg.RspTo == old(m.comp.State.FlitsToSend[q].Msg.RspTo) && as(sentAt(netP(m), n), "packetization.Flit").MsgTaskID == old(m.comp.State.FlitsToSend[q].MsgTaskID)
//@ pred sendLogKept(m) = (forall p int :: p != netP(m) ==> sendCnt[p] == old(sendCnt)[p] && sentTyp[p] == old(sentTyp)[p] && sentVal[p] == old(sentVal)[p]) && (forall n int :: n < old(sendCnt)[netP(m)] ==> sentTyp[netP(m)][n] == old(sentTyp)[netP(m)][n] && sentVal[netP(m)][n] == old(sentVal)[netP(m)][n])
//@ fn (*outgoingMW).sendFlitOut
//@   property C31
//@   requires epWF(m)
//@   label C31.send.count
//@   ensures 0 <= sendK(m) && sendK(m) <= old(len(m.comp.State.FlitsToSend)) && sendK(m) <= max(0, m.comp.spec.NumOutputChannels) && (result <==> sendK(m) > 0)
//@   label C31.send.pop
//@   ensures ref(m.comp.State.FlitsToSend) == old(ref(m.comp.State.FlitsToSend)) && off(m.comp.State.FlitsToSend) == old(off(m.comp.State.FlitsToSend)) + sendK(m) && len(m.comp.State.FlitsToSend) == old(len(m.comp.State.FlitsToSend)) - sendK(m)
//@   label C31.send.inorder
//@   ensures forall k int :: old(sendCnt)[netP(m)] <= k && k < sendCnt[netP(m)] ==> sentIsFlit(m, k, k - old(sendCnt)[netP(m)])
//@   label C31.send.stop
//@   ensures sendK(m) < old(len(m.comp.State.FlitsToSend)) && sendK(m) < m.comp.spec.NumOutputChannels ==> !canSend[netP(m)]
//@   label C31.send.log
//@   ensures sendLogKept(m)
//@   label C31.send.notify
//@   ensures (sendK(m) == 0 || len(m.comp.State.FlitsToSend) > 0 ==> availCnt == old(availCnt)) && (sendK(m) > 0 && len(m.comp.State.FlitsToSend) == 0 ==> (forall j in 0..len(m.devicePorts) :: availCnt[ifaceval(m.devicePorts[j])] > old(availCnt)[ifaceval(m.devicePorts[j])]))
//@   assigns m.comp.State.FlitsToSend, canSend, sendCnt, sentTyp, sentVal, availCnt
//@   loop 0: invariant epWF(m) && 0 <= i && numSent == i && i <= len(m.comp.State.FlitsToSend) && i <= max(0, m.comp.spec.NumOutputChannels) && (madeProgress <==> i > 0) && sendCnt[netP(m)] == old(sendCnt)[netP(m)] + i && availCnt == old(availCnt)
//@   loop 0: invariant ref(m.comp.State.FlitsToSend) == old(ref(m.comp.State.FlitsToSend)) && off(m.comp.State.FlitsToSend) == old(off(m.comp.State.FlitsToSend)) && len(m.comp.State.FlitsToSend) == old(len(m.comp.State.FlitsToSend))
//@   loop 0: invariant forall k int :: old(sendCnt)[netP(m)] <= k && k < old(sendCnt)[netP(m)] + i ==> hastype(sentAt(netP(m), k), "packetization.Flit") && sentVal[netP(m)][k] <= allocTop
//@   loop 0: invariant forall k int :: old(sendCnt)[netP(m)] <= k && k < old(sendCnt)[netP(m)] + i ==> as(sentAt(netP(m), k), "packetization.Flit").MsgMeta.ID == old(m.comp.State.FlitsToSend[k - old(sendCnt)[netP(m)]].MsgMeta.ID)
//@   loop 0: invariant forall k int :: old(sendCnt)[netP(m)] <= k && k < old(sendCnt)[netP(m)] + i ==> as(sentAt(netP(m), k), "packetization.Flit").MsgMeta.Src == old(m.comp.State.FlitsToSend[k - old(sendCnt)[netP(m)]].MsgMeta.Src)
//@   loop 0: invariant forall k int :: old(sendCnt)[netP(m)] <= k && k < old(sendCnt)[netP(m)] + i ==> as(sentAt(netP(m), k), "packetization.Flit").MsgMeta.Dst == old(m.comp.State.FlitsToSend[k - old(sendCnt)[netP(m)]].MsgMeta.Dst)
//@   loop 0: invariant forall k int :: old(sendCnt)[netP(m)] <= k && k < old(sendCnt)[netP(m)] + i ==> as(sentAt(netP(m), k), "packetization.Flit").MsgMeta.TrafficClass == old(m.comp.State.FlitsToSend[k - old(sendCnt)[netP(m)]].MsgMeta.TrafficClass)
//@   loop 0: invariant forall k int :: old(sendCnt)[netP(m)] <= k && k < old(sendCnt)[netP(m)] + i ==> as(sentAt(netP(m), k), "packetization.Flit").MsgMeta.TrafficBytes == old(m.comp.State.FlitsToSend[k - old(sendCnt)[netP(m)]].MsgMeta.TrafficBytes)
//@   loop 0: invariant forall k int :: old(sendCnt)[netP(m)] <= k && k < old(sendCnt)[netP(m)] + i ==> as(sentAt(netP(m), k), "packetization.Flit").MsgMeta.RspTo == old(m.comp.State.FlitsToSend[k - old(sendCnt)[netP(m)]].MsgMeta.RspTo)
//@   loop 0: invariant forall k int :: old(sendCnt)[netP(m)] <= k && k < old(sendCnt)[netP(m)] + i ==> as(sentAt(netP(m), k), "packetization.Flit").SeqID == old(m.comp.State.FlitsToSend[k - old(sendCnt)[netP(m)]].SeqID)
//@   loop 0: invariant forall k int :: old(sendCnt)[netP(m)] <= k && k < old(sendCnt)[netP(m)] + i ==> as(sentAt(netP(m), k), "packetization.Flit").NumFlitInMsg == old(m.comp.State.FlitsToSend[k - old(sendCnt)[netP(m)]].NumFlitInMsg)
//@   loop 0: invariant forall k int :: old(sendCnt)[netP(m)] <= k && k < old(sendCnt)[netP(m)] + i ==> as(sentAt(netP(m), k), "packetization.Flit").Msg.ID == old(m.comp.State.FlitsToSend[k - old(sendCnt)[netP(m)]].Msg.ID)
//@   loop 0: invariant forall k int :: old(sendCnt)[netP(m)] <= k && k < old(sendCnt)[netP(m)] + i ==> as(sentAt(netP(m), k), "packetization.Flit").Msg.Src == old(m.comp.State.FlitsToSend[k - old(sendCnt)[netP(m)]].Msg.Src)
//@   loop 0: invariant forall k int :: old(sendCnt)[netP(m)] <= k && k < old(sendCnt)[netP(m)] + i ==> as(sentAt(netP(m), k), "packetization.Flit").Msg.Dst == old(m.comp.State.FlitsToSend[k - old(sendCnt)[netP(m)]].Msg.Dst)
//@   loop 0: invariant forall k int :: old(sendCnt)[netP(m)] <= k && k < old(sendCnt)[netP(m)] + i ==> as(sentAt(netP(m), k), "packetization.Flit").Msg.TrafficClass == old(m.comp.State.FlitsToSend[k - old(sendCnt)[netP(m)]].Msg.TrafficClass)
//@   loop 0: invariant forall k int :: old(sendCnt)[netP(m)] <= k && k < old(sendCnt)[netP(m)] + i ==> as(sentAt(netP(m), k), "packetization.Flit").Msg.TrafficBytes == old(m.comp.State.FlitsToSend[k - old(sendCnt)[netP(m)]].Msg.TrafficBytes)
//@   loop 0: invariant forall k int :: old(sendCnt)[netP(m)] <= k && k < old(sendCnt)[netP(m)] + i ==> as(sentAt(netP(m), k), "packetization.Flit").Msg.RspTo == old(m.comp.State.FlitsToSend[k - old(sendCnt)[netP(m)]].Msg.RspTo)
//@   loop 0: invariant forall k int :: old(sendCnt)[netP(m)] <= k && k < old(sendCnt)[netP(m)] + i ==> as(sentAt(netP(m), k), "packetization.Flit").MsgTaskID == old(m.comp.State.FlitsToSend[k - old(sendCnt)[netP(m)]].MsgTaskID)
//@   loop 0: invariant sendLogKept(m)
//@   loop 1: invariant -1 <= rangeindex && rangeindex < len(m.devicePorts) && (forall p int :: availCnt[p] >= old(availCnt)[p])
//@   loop 1: invariant forall j in 0..rangeindex + 1 :: availCnt[ifaceval(m.devicePorts[j])] > old(availCnt)[ifaceval(m.devicePorts[j])]
