//go:build verif

// Contracts for package endpoint, property C31 (comment-only; read by /verif/engine, never compiled into a build).
// C31: endpoints packetize and reassemble losslessly.
package endpoint

//@ ghost var canSend set
//@ ghost var sendCnt map
//@ ghost var sentTyp map2
//@ ghost var sentVal map2
//@ ghost var inTyp map
//@ ghost var inVal map
//@ ghost var retrCnt map
//@ ghost var issued set
// delivery log of /verif/contracts/noc/directconnection/zz_contracts_C10_verif.go (same names, same meaning; its
// CanDeliver / Deliver contracts are reused): canDlv = the port's incoming buffer has room; the n-th Deliver call (on any
// port) handed message (dlvTyp[n], dlvVal[n]) to the port with identity dlvTo[n]; dlvN = number of Deliver calls so far.
//@ ghost var canDlv set
//@ ghost var dlvN int
//@ ghost var dlvTyp map
//@ ghost var dlvVal map
//@ ghost var dlvTo map

//@ pred epWF(m) = m.comp != nil && m.comp.TickingComponent != nil && m.comp.TickingComponent.PortOwnerBase != nil && ("NetworkPort" in m.comp.TickingComponent.PortOwnerBase.ports)

//@ fn (*incomingMW).networkPort
//@   property C31
//@   requires epWF(m)
//@   label C31.in.netport
//@   ensures result == m.comp.TickingComponent.PortOwnerBase.ports["NetworkPort"]
//@   assigns nothing

//@ fn (*incomingMW).logMsgE2EEnd
//@   property C31
//@   requires epWF(m)
//@   assigns nothing

// ---- assemble: complete entries (Arrived >= Required) leave the assembling list for the assembled list, in order ----
//@ func asm(m) = m.comp.State.AssemblingMsgs
//@ func asd(m) = m.comp.State.AssembledMsgs
//@ pred incompleteOld(m, j) = old(m.comp.State.AssemblingMsgs[j].NumFlitArrived) < old(m.comp.State.AssemblingMsgs[j].NumFlitRequired)
//@ pred sameEntry(m, i, j) = m.comp.State.AssemblingMsgs[i].MsgID == old(m.comp.State.AssemblingMsgs[j].MsgID) && m.comp.State.AssemblingMsgs[i].MsgTaskID == old(m.comp.State.AssemblingMsgs[j].MsgTaskID) && m.comp.State.AssemblingMsgs[i].Src == old(m.comp.State.AssemblingMsgs[j].Src) && m.comp.State.AssemblingMsgs[i].Dst == old(m.comp.State.AssemblingMsgs[j].Dst) && m.comp.State.AssemblingMsgs[i].RspTo == old(m.comp.State.AssemblingMsgs[j].RspTo) && m.comp.State.AssemblingMsgs[i].TrafficClass == old(m.comp.State.AssemblingMsgs[j].TrafficClass) && m.comp.State.AssemblingMsgs[i].TrafficBytes == old(m.comp.State.AssemblingMsgs[j].TrafficBytes) && m.comp.State.AssemblingMsgs[i].NumFlitRequired == old(m.comp.State.AssemblingMsgs[j].NumFlitRequired) && m.comp.State.AssemblingMsgs[i].NumFlitArrived == old(m.comp.State.AssemblingMsgs[j].NumFlitArrived)
//@ pred carries(m, p, j) = m.comp.State.AssembledMsgs[p].ID == old(m.comp.State.AssemblingMsgs[j].MsgID) && m.comp.State.AssembledMsgs[p].Src == old(m.comp.State.AssemblingMsgs[j].Src) && m.comp.State.AssembledMsgs[p].Dst == old(m.comp.State.AssemblingMsgs[j].Dst) && m.comp.State.AssembledMsgs[p].RspTo == old(m.comp.State.AssemblingMsgs[j].RspTo) && m.comp.State.AssembledMsgs[p].TrafficClass == old(m.comp.State.AssemblingMsgs[j].TrafficClass) && m.comp.State.AssembledMsgs[p].TrafficBytes == old(m.comp.State.AssemblingMsgs[j].TrafficBytes)
//@ pred sameAssembled(m, p, q) = m.comp.State.AssembledMsgs[p].ID == old(m.comp.State.AssembledMsgs[q].ID) && m.comp.State.AssembledMsgs[p].Src == old(m.comp.State.AssembledMsgs[q].Src) && m.comp.State.AssembledMsgs[p].Dst == old(m.comp.State.AssembledMsgs[q].Dst) && m.comp.State.AssembledMsgs[p].RspTo == old(m.comp.State.AssembledMsgs[q].RspTo) && m.comp.State.AssembledMsgs[p].TrafficClass == old(m.comp.State.AssembledMsgs[q].TrafficClass) && m.comp.State.AssembledMsgs[p].TrafficBytes == old(m.comp.State.AssembledMsgs[q].TrafficBytes)
// rank[j] - rank[0] = number of incomplete entries among the first j old entries (the witness is fully determined, up
// to the offset rank[0], by clause C31.assemble.rank; on the early return of an empty list it is unconstrained and unused)
//@ func rnk(rk, j) = rk[j] - rk[0]
//@ pred rankOK(m, rk, k) = forall j in 0..k :: rk[j + 1] == rk[j] + (incompleteOld(m, j) ? 1 : 0)

//@ fn (*incomingMW).assemble
//@   property C31
//@   requires epWF(m)
//@   witness rank map = rk
//@   label C31.assemble.rank
//@   ensures rankOK(m, rank, old(len(m.comp.State.AssemblingMsgs)))
//@   label C31.assemble.lens
//@   ensures len(m.comp.State.AssemblingMsgs) == rnk(rank, old(len(m.comp.State.AssemblingMsgs))) && len(m.comp.State.AssembledMsgs) == old(len(m.comp.State.AssembledMsgs)) + old(len(m.comp.State.AssemblingMsgs)) - rnk(rank, old(len(m.comp.State.AssemblingMsgs)))
//@   label C31.assemble.inplace
//@   ensures ref(m.comp.State.AssemblingMsgs) == old(ref(m.comp.State.AssemblingMsgs)) && off(m.comp.State.AssemblingMsgs) == old(off(m.comp.State.AssemblingMsgs))
//@   label C31.assemble.stay
//@   ensures forall j in 0..old(len(m.comp.State.AssemblingMsgs)) :: incompleteOld(m, j) ==> sameEntry(m, rnk(rank, j), j)
//@   label C31.assemble.move
//@   ensures forall j in 0..old(len(m.comp.State.AssemblingMsgs)) :: !incompleteOld(m, j) ==> carries(m, old(len(m.comp.State.AssembledMsgs)) + j - rnk(rank, j), j)
//@   label C31.assemble.keep
//@   ensures forall p in 0..old(len(m.comp.State.AssembledMsgs)) :: sameAssembled(m, p, p)
//@   label C31.assemble.progress
//@   ensures result <==> len(m.comp.State.AssembledMsgs) > old(len(m.comp.State.AssembledMsgs))
//@   assigns m.comp.State.AssemblingMsgs, elems(m.comp.State.AssemblingMsgs), m.comp.State.AssembledMsgs, elems(m.comp.State.AssembledMsgs)
//@   loop 0: ghost rk = mapof(j, 0)
//@   loop 0: backedge rk = upd(rk, rangeindex + 1, writeIdx)
//@   loop 0: invariant -1 <= rangeindex && rangeindex < old(len(m.comp.State.AssemblingMsgs)) && 0 <= writeIdx && writeIdx <= rangeindex + 1
//@   loop 0: invariant ref(m.comp.State.AssemblingMsgs) == old(ref(m.comp.State.AssemblingMsgs)) && off(m.comp.State.AssemblingMsgs) == old(off(m.comp.State.AssemblingMsgs)) && len(m.comp.State.AssemblingMsgs) == old(len(m.comp.State.AssemblingMsgs))
//@   loop 0: invariant rk[0] == 0 && rankOK(m, rk, rangeindex + 1) && rk[rangeindex + 1] == writeIdx
//@   loop 0: invariant len(m.comp.State.AssembledMsgs) == old(len(m.comp.State.AssembledMsgs)) + rangeindex + 1 - writeIdx
//@   loop 0: invariant forall j in 0..rangeindex + 1 :: 0 <= rk[j] && rk[j] <= j && (incompleteOld(m, j) ==> rk[j] < writeIdx) && (!incompleteOld(m, j) ==> j - rk[j] < rangeindex + 1 - writeIdx)
//@   loop 0: invariant (ref(m.comp.State.AssembledMsgs) == old(ref(m.comp.State.AssembledMsgs)) && off(m.comp.State.AssembledMsgs) == old(off(m.comp.State.AssembledMsgs))) || fresh(m.comp.State.AssembledMsgs)
//@   loop 0: invariant forall j in rangeindex + 1..old(len(m.comp.State.AssemblingMsgs)) :: sameEntry(m, j, j)
//@   loop 0: invariant forall j in 0..rangeindex + 1 :: incompleteOld(m, j) ==> sameEntry(m, rk[j], j)
//@   loop 0: invariant forall j in 0..rangeindex + 1 :: !incompleteOld(m, j) ==> carries(m, old(len(m.comp.State.AssembledMsgs)) + j - rk[j], j)
//@   loop 0: invariant forall p in 0..old(len(m.comp.State.AssembledMsgs)) :: sameAssembled(m, p, p)
//@   loop 0: invariant madeProgress <==> len(m.comp.State.AssembledMsgs) > old(len(m.comp.State.AssembledMsgs))

// ---- tryDeliver: hands a prefix of the assembled list, in order, to device ports; stops at the first port that is full ----
//@ func dlvK() = dlvN - old(dlvN)
//@ func dlvMsg(n) = mkiface(dlvTyp[n], dlvVal[n])
//@ pred deliveredMeta(m, n, i) = hastype(dlvMsg(n), "packetization.AssembledMsg") && as(dlvMsg(n), "packetization.AssembledMsg").MsgMeta.ID == old(m.comp.State.AssembledMsgs[i].ID) && as(dlvMsg(n), "packetization.AssembledMsg").MsgMeta.Src == old(m.comp.State.AssembledMsgs[i].Src) && as(dlvMsg(n), "packetization.AssembledMsg").MsgMeta.Dst == old(m.comp.State.AssembledMsgs[i].Dst) && as(dlvMsg(n), "packetization.AssembledMsg").MsgMeta.RspTo == old(m.comp.State.AssembledMsgs[i].RspTo) && as(dlvMsg(n), "packetization.AssembledMsg").MsgMeta.TrafficClass == old(m.comp.State.AssembledMsgs[i].TrafficClass) && as(dlvMsg(n), "packetization.AssembledMsg").MsgMeta.TrafficBytes == old(m.comp.State.AssembledMsgs[i].TrafficBytes)
//@ pred dlvLogKept() = forall n int :: n < old(dlvN) ==> dlvTyp[n] == old(dlvTyp)[n] && dlvVal[n] == old(dlvVal)[n] && dlvTo[n] == old(dlvTo)[n]

//@ fn (*incomingMW).tryDeliver
//@   property C31
//@   requires epWF(m)
//@   panics any
//@   label C31.deliver.count
//@   ensures 0 <= dlvK() && dlvK() <= old(len(m.comp.State.AssembledMsgs))
//@   label C31.deliver.pop
//@   ensures ref(m.comp.State.AssembledMsgs) == old(ref(m.comp.State.AssembledMsgs)) && off(m.comp.State.AssembledMsgs) == old(off(m.comp.State.AssembledMsgs)) + dlvK() && len(m.comp.State.AssembledMsgs) == old(len(m.comp.State.AssembledMsgs)) - dlvK()
//@   label C31.deliver.inorder
//@   ensures forall n in 0..dlvK() :: deliveredMeta(m, old(dlvN) + n, n)
//@   label C31.deliver.target
//@   ensures forall n in 0..dlvK() :: 0 <= tgt[n] && tgt[n] < len(m.devicePorts) && dlvTo[old(dlvN) + n] == ifaceval(m.devicePorts[tgt[n]])
//@   label C31.deliver.log
//@   ensures dlvLogKept()
//@   label C31.deliver.progress
//@   ensures result <==> dlvK() > 0
//@   assigns m.comp.State.AssembledMsgs, canDlv, dlvN, dlvTyp, dlvVal, dlvTo, inTyp, inVal
//@   loop 0: ghost tgt = mapof(j, 0)
//@   loop 0: backedge tgt = upd(tgt, athead(i), jj)
//@   loop 0: invariant 0 <= i && i <= len(m.comp.State.AssembledMsgs) && numDelivered == i && dlvN == old(dlvN) + i && (madeProgress <==> i > 0)
//@   loop 0: invariant ref(m.comp.State.AssembledMsgs) == old(ref(m.comp.State.AssembledMsgs)) && off(m.comp.State.AssembledMsgs) == old(off(m.comp.State.AssembledMsgs)) && len(m.comp.State.AssembledMsgs) == old(len(m.comp.State.AssembledMsgs))
//@   loop 0: invariant forall n in 0..i :: deliveredMeta(m, old(dlvN) + n, n)
//@   loop 0: invariant forall n in 0..i :: 0 <= tgt[n] && tgt[n] < len(m.devicePorts) && dlvTo[old(dlvN) + n] == ifaceval(m.devicePorts[tgt[n]])
//@   loop 0: invariant dlvLogKept()
//@   loop 1: ghost jj = 0
//@   loop 1: backedge jj = jj + 1
//@   loop 1: invariant dstPort == nil && jj == rangeindex + 1 && -1 <= rangeindex && rangeindex < len(m.devicePorts)
