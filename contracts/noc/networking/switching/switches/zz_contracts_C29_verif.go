//go:build verif

// Contracts for package switches, property C29 (comment-only; read by /verif/engine, never compiled into a build).
//
// C29 (per-step link of "networks deliver every message exactly once with metadata intact"): the SWITCH stages
// route -> forward -> sendOut of routeForwardSendMW move every flit, unchanged, to exactly one next-stage buffer.
// Whole-network exactly-once / liveness is NOT claimed here (connections: C10, endpoints: C31, routing tables: C30).
//   resolveOutputBufIdx  result == portIndex[FindPort(dst)]; panics IFF FindPort gives "" or an unknown port
//   route    (port A)    RouteBuffer' = RouteBuffer[K:], ForwardBuffer' = ForwardBuffer ++ RouteBuffer[:K] with only
//                        OutputBufIdx rewritten to portIndex[FindPort(RouteTo)]; K = max(0, min(NumInputChannel, len RB, room in FB))
//   forward  (A -> B)    ForwardBuffer(A)' = ForwardBuffer(A)[K:]; SendOutBuffer(B)' = SendOutBuffer(B) ++ (at most one entry);
//                        every taken flit whose OutputBufIdx is B is that entry, all 18 fields unchanged; nothing is pushed into a
//                        full send-out buffer (no panic of PushTyped); NextArbPort advances round-robin
//   sendOut  (port A)    SendOutBuffer' = SendOutBuffer[K:], the K flits are sent on port A in order; Send only when CanSend
//                        (no panic of the trusted Send contract); 13 flit fields unchanged, envelope Src/Dst rewritten
// No map is iterated in these functions (portIndex is only looked up); every result above is a function of the buffer
// contents, the port list order and NextArbPort.
package switches

//@ ghost var canSend set
//@ ghost var sendCnt map
//@ ghost var sentTyp map2
//@ ghost var sentVal map2

//@ pred swWF(m) = m.comp != nil && m.comp.TickingComponent != nil && m.comp.TickingComponent.PortOwnerBase != nil
//@ func grp(m) = m.comp.TickingComponent.PortOwnerBase.groups["Port"]

//@ ext messaging.(PortOwnerBase).PortsInGroup(po, group)
//@   trusted
//@   pure
//@   ensures ref(result) == ref(po.groups[group]) && off(result) == off(po.groups[group]) && len(result) == len(po.groups[group])

//@ ufunc tblPort(t, dst) int
//@ iface routing.Table.FindPort(dst)
//@   trusted
//@   assigns nothing
//@   ensures result == tblPort(self, dst)

//@ ext modeling.(*TickingComponent).Name(c)
//@   trusted
//@   pure

//@ fn (*routeForwardSendMW).ports
//@   property C29
//@   requires swWF(m)
//@   label C29.ports
//@   ensures ref(result) == ref(grp(m)) && off(result) == off(grp(m)) && len(result) == len(grp(m))
//@   assigns nothing

//@ fn (*routeForwardSendMW).resolveOutputBufIdx
//@   property C29
//@   requires swWF(m)
//@   panics tblPort(m.routingTable, msgDst) == "" || !(tblPort(m.routingTable, msgDst) in m.portIndex)
//@   label C29.resolve.findport
//@   ensures result == m.portIndex[tblPort(m.routingTable, msgDst)]
//@   assigns nothing

// ---- trusted: messaging.Port is an interface (any implementation); text identical to C18's / C21's local copies ----
//@ iface messaging.Port.CanSend()
//@   trusted
//@   ensures result <==> canSend[ifaceval(self)]
//@   assigns nothing
//@ iface messaging.Port.Send(msg)
//@   trusted
//@   panics !canSend[ifaceval(self)]
//@   ensures sendCnt == upd(old(sendCnt), ifaceval(self), old(sendCnt)[ifaceval(self)] + 1)
//@   ensures sentTyp == upd(old(sentTyp), ifaceval(self), upd(old(sentTyp)[ifaceval(self)], old(sendCnt)[ifaceval(self)], typeid(msg)))
//@   ensures sentVal == upd(old(sentVal), ifaceval(self), upd(old(sentVal)[ifaceval(self)], old(sendCnt)[ifaceval(self)], ifaceval(msg)))
//@   assigns canSend, sendCnt, sentTyp, sentVal
//@ ufunc portRemote(p) int
//@ iface messaging.Port.AsRemote()
//@   trusted
//@   assigns nothing
//@   ensures result == portRemote(self)
//@ iface messaging.Port.Name()
//@   trusted
//@   assigns nothing
//@   ensures hastype(self, "*messaging.defaultPort") ==> result == as(self, "*messaging.defaultPort").name
//@ ext tracing.AddMilestone(domain, ms)
//@   trusted
//@   assigns nothing
//@ ext tracing.EndTask(domain, end)
//@   trusted
//@   assigns nothing

// ---- views ----
//@ func pcN(m) = len(m.comp.State.PortComplexes)
//@ func pid(m, i) = ifaceval(m.comp.TickingComponent.PortOwnerBase.groups["Port"][i])
//@ func sentAt(p, n) = mkiface(sentTyp[p][n], sentVal[p][n])
//@ func sentFlit(p, n) = as(sentAt(p, n), "packetization.Flit")
//@ pred portsDistinct(m) = forall a in 0..len(grp(m)) :: forall b in 0..len(grp(m)) :: a != b ==> pid(m, a) != pid(m, b)
// (the last conjunct is a fact of Go's type system - slice lengths are never negative - that the engine does not know for slice headers loaded from the heap)
//@ pred swShape(m) = swWF(m) && pcN(m) == len(grp(m)) && (forall a in 0..len(m.comp.State.PortComplexes) :: 0 <= len(m.comp.State.PortComplexes[a].SendOutBuffer.elements) && 0 <= len(m.comp.State.PortComplexes[a].ForwardBuffer.elements) && 0 <= len(m.comp.State.PortComplexes[a].RouteBuffer.elements))
// number of flits sent on port i by this call
//@ func sentK(m, i) = sendCnt[pid(m, i)] - old(sendCnt)[pid(m, i)]

// the n-th message ever sent on port a is the flit of entry x of port a's send-out buffer on entry: the 13 fields
// MsgMeta.{ID,TrafficClass,TrafficBytes,RspTo}, SeqID, NumFlitInMsg, Msg.* (carried message metadata), MsgTaskID are unchanged;
// only the hop-level envelope changes: MsgMeta.Src = the local port's remote name, MsgMeta.Dst = the port complex's RemotePort.
//@ pred sentIs(m, a, n, x) = hastype(sentAt(pid(m, a), n), "packetization.Flit") && sentFlit(pid(m, a), n).MsgMeta.ID == old(m.comp.State.PortComplexes[a].SendOutBuffer.elements[x].Flit.MsgMeta.ID) && sentFlit(pid(m, a), n).MsgMeta.TrafficClass == old(m.comp.State.PortComplexes[a].SendOutBuffer.elements[x].Flit.MsgMeta.TrafficClass) && sentFlit(pid(m, a), n).MsgMeta.TrafficBytes == old(m.comp.State.PortComplexes[a].SendOutBuffer.elements[x].Flit.MsgMeta.TrafficBytes) && sentFlit(pid(m, a), n).MsgMeta.RspTo == old(m.comp.State.PortComplexes[a].SendOutBuffer.elements[x].Flit.MsgMeta.RspTo) && sentFlit(pid(m, a), n).SeqID == old(m.comp.State.PortComplexes[a].SendOutBuffer.elements[x].Flit.SeqID) && sentFlit(pid(m, a), n).NumFlitInMsg == old(m.comp.State.PortComplexes[a].SendOutBuffer.elements[x].Flit.NumFlitInMsg) && sentFlit(pid(m, a), n).Msg.ID == old(m.comp.State.PortComplexes[a].SendOutBuffer.elements[x].Flit.Msg.ID) && sentFlit(pid(m, a), n).Msg.Src == old(m.comp.State.PortComplexes[a].SendOutBuffer.elements[x].Flit.Msg.Src) && sentFlit(pid(m, a), n).Msg.Dst == old(m.comp.State.PortComplexes[a].SendOutBuffer.elements[x].Flit.Msg.Dst) && sentFlit(pid(m, a), n).Msg.TrafficClass == old(m.comp.State.PortComplexes[a].SendOutBuffer.elements[x].Flit.Msg.TrafficClass) && sentFlit(pid(m, a), n).Msg.TrafficBytes == old(m.comp.State.PortComplexes[a].SendOutBuffer.elements[x].Flit.Msg.TrafficBytes) && sentFlit(pid(m, a), n).Msg.RspTo == old(m.comp.State.PortComplexes[a].SendOutBuffer.elements[x].Flit.Msg.RspTo) && sentFlit(pid(m, a), n).MsgTaskID == old(m.comp.State.PortComplexes[a].SendOutBuffer.elements[x].Flit.MsgTaskID) && sentFlit(pid(m, a), n).MsgMeta.Src == portRemote(grp(m)[a]) && sentFlit(pid(m, a), n).MsgMeta.Dst == old(m.comp.State.PortComplexes[a].RemotePort)

// ---- logical variables ----
// c29A / c29B are NEVER assigned by any contract (they are in no assigns clause): each contract below is proved for every
// value of them, i.e. the clauses that mention c29A (an arbitrary port-complex index, "input side") and c29B (an arbitrary
// second index, "output side") hold universally over the ports of the switch.
//@ ghost var c29A int
//@ ghost var c29B int
//@ pred aPort(m) = 0 <= c29A && c29A < pcN(m)

// ---- sendOut: per port, a prefix of the send-out buffer leaves on the port, in order; the rest stays, in order ----
//@ pred sendCounts(m) = 0 <= sentK(m, c29A) && sentK(m, c29A) <= old(len(m.comp.State.PortComplexes[c29A].SendOutBuffer.elements)) && sentK(m, c29A) <= max(0, m.comp.State.PortComplexes[c29A].NumOutputChannel) && len(m.comp.State.PortComplexes[c29A].SendOutBuffer.elements) == old(len(m.comp.State.PortComplexes[c29A].SendOutBuffer.elements)) - sentK(m, c29A)
// (the index x + k is evaluated in the CURRENT state: old(s)[x + k], not old(s[x + k]))
//@ pred sendShift(m) = forall x in 0..len(m.comp.State.PortComplexes[c29A].SendOutBuffer.elements) :: m.comp.State.PortComplexes[c29A].SendOutBuffer.elements[x] == old(m.comp.State.PortComplexes[c29A].SendOutBuffer.elements)[x + sentK(m, c29A)]
//@ pred sendInOrder(m) = forall n int :: old(sendCnt)[pid(m, c29A)] <= n && n < sendCnt[pid(m, c29A)] ==> sentIs(m, c29A, n, n - old(sendCnt)[pid(m, c29A)]) && sentVal[pid(m, c29A)][n] <= allocTop
//@ pred sendLogKept() = forall p int :: sendCnt[p] >= old(sendCnt)[p] && (forall n int :: n < old(sendCnt)[p] ==> sentTyp[p][n] == old(sentTyp)[p][n] && sentVal[p][n] == old(sentVal)[p][n])
//@ pred sendOnlyOwn(m, slot) = forall p int :: sendCnt[p] != old(sendCnt)[p] ==> 0 <= slot[p] && slot[p] < pcN(m) && pid(m, slot[p]) == p

//@ fn (*routeForwardSendMW).sendOut
//@   property C29
//@   requires swShape(m) && portsDistinct(m) && aPort(m)
//@   witness slot map = gslot
//@   label C29.send.count
//@   ensures sendCounts(m)
//@   label C29.send.keep
//@   ensures sendShift(m)
//@   label C29.send.inorder
//@   ensures sendInOrder(m)
//@   label C29.send.log
//@   ensures sendLogKept()
//@   label C29.send.onlyown
//@   ensures sendOnlyOwn(m, slot)
//@   label C29.send.progress
//@   ensures !result ==> sentK(m, c29A) == 0
//@   assigns canSend, sendCnt, sentTyp, sentVal, key("E|noc/networking/switching/switches.portComplexState|.SendOutBuffer.elements")
//@   loop 0: ghost gslot = idperm
//@   loop 0: backedge gslot = upd(gslot, ifaceval(port), rangeindex)
//@   loop 0: invariant swShape(m) && portsDistinct(m) && -1 <= rangeindex && rangeindex < len(grp(m))
//@   loop 0: invariant sendCounts(m) && (!madeProgress ==> sentK(m, c29A) == 0)
//@   loop 0: invariant forall a in rangeindex + 1..pcN(m) :: sentK(m, a) == 0
//@   loop 0: invariant sendShift(m)
//@   loop 0: invariant sendInOrder(m)
//@   loop 0: invariant sendLogKept()
//@   loop 0: invariant sendOnlyOwn(m, gslot)
//@   loop 1: invariant swShape(m) && portsDistinct(m) && 0 <= j && j == sentK(m, i) && (j > 0 ==> j <= m.comp.State.PortComplexes[i].NumOutputChannel)
//@   loop 1: invariant sendCounts(m) && (!madeProgress ==> sentK(m, c29A) == 0) && (i != c29A ==> pid(m, i) != pid(m, c29A))
//@   loop 1: invariant forall a in i + 1..pcN(m) :: sentK(m, a) == 0
//@   loop 1: invariant sendShift(m)
//@   loop 1: invariant sendInOrder(m)
//@   loop 1: invariant sendLogKept()
//@   loop 1: invariant forall p int :: sendCnt[p] != old(sendCnt)[p] ==> (p == pid(m, i) || (0 <= gslot[p] && gslot[p] < pcN(m) && pid(m, gslot[p]) == p))

// ---- route: per port, a prefix of the route buffer moves to the END of the same port's forward buffer, in order ----
//@ func mvd(n, r, f) = max(0, min(n, min(r, f)))
//@ func rtK(m, a) = len(m.comp.State.PortComplexes[a].ForwardBuffer.elements) - old(len(m.comp.State.PortComplexes[a].ForwardBuffer.elements))
// assumption (precondition): the routing table resolves EVERY destination to a remote port that is a key of portIndex
//@ pred tableTotal(m) = forall d int :: tblPort(m.routingTable, d) != "" && (tblPort(m.routingTable, d) in m.portIndex)
//@ pred fwdBufWF(m) = forall a in 0..pcN(m) :: len(m.comp.State.PortComplexes[a].ForwardBuffer.elements) <= max(int(m.comp.State.PortComplexes[a].ForwardBuffer.cap), 0)
// separation (precondition): the backing array of port A's route buffer / forward buffer is not the (non-nil) backing array of another forward buffer
//@ pred rtSep(m) = ref(m.comp.State.PortComplexes[c29A].RouteBuffer.elements) <= allocTop && ref(m.comp.State.PortComplexes[c29A].ForwardBuffer.elements) <= allocTop && (forall b in 0..pcN(m) :: ref(m.comp.State.PortComplexes[b].ForwardBuffer.elements) != 0 ==> ref(m.comp.State.PortComplexes[c29A].RouteBuffer.elements) != ref(m.comp.State.PortComplexes[b].ForwardBuffer.elements) && (b != c29A ==> ref(m.comp.State.PortComplexes[c29A].ForwardBuffer.elements) != ref(m.comp.State.PortComplexes[b].ForwardBuffer.elements)))
// entry y of port A's forward buffer is entry x of its route buffer on entry: all 17 other fields unchanged, OutputBufIdx = portIndex[FindPort(RouteTo)]
//@ pred routedAs(m, y, x) = m.comp.State.PortComplexes[c29A].ForwardBuffer.elements[y].Flit.MsgMeta.ID == old(m.comp.State.PortComplexes[c29A].RouteBuffer.elements[x].Flit.MsgMeta.ID) && m.comp.State.PortComplexes[c29A].ForwardBuffer.elements[y].Flit.MsgMeta.Src == old(m.comp.State.PortComplexes[c29A].RouteBuffer.elements[x].Flit.MsgMeta.Src) && m.comp.State.PortComplexes[c29A].ForwardBuffer.elements[y].Flit.MsgMeta.Dst == old(m.comp.State.PortComplexes[c29A].RouteBuffer.elements[x].Flit.MsgMeta.Dst) && m.comp.State.PortComplexes[c29A].ForwardBuffer.elements[y].Flit.MsgMeta.TrafficClass == old(m.comp.State.PortComplexes[c29A].RouteBuffer.elements[x].Flit.MsgMeta.TrafficClass) && m.comp.State.PortComplexes[c29A].ForwardBuffer.elements[y].Flit.MsgMeta.TrafficBytes == old(m.comp.State.PortComplexes[c29A].RouteBuffer.elements[x].Flit.MsgMeta.TrafficBytes) && m.comp.State.PortComplexes[c29A].ForwardBuffer.elements[y].Flit.MsgMeta.RspTo == old(m.comp.State.PortComplexes[c29A].RouteBuffer.elements[x].Flit.MsgMeta.RspTo) && m.comp.State.PortComplexes[c29A].ForwardBuffer.elements[y].Flit.SeqID == old(m.comp.State.PortComplexes[c29A].RouteBuffer.elements[x].Flit.SeqID) && m.comp.State.PortComplexes[c29A].ForwardBuffer.elements[y].Flit.NumFlitInMsg == old(m.comp.State.PortComplexes[c29A].RouteBuffer.elements[x].Flit.NumFlitInMsg) && m.comp.State.PortComplexes[c29A].ForwardBuffer.elements[y].Flit.Msg.ID == old(m.comp.State.PortComplexes[c29A].RouteBuffer.elements[x].Flit.Msg.ID) && m.comp.State.PortComplexes[c29A].ForwardBuffer.elements[y].Flit.Msg.Src == old(m.comp.State.PortComplexes[c29A].RouteBuffer.elements[x].Flit.Msg.Src) && m.comp.State.PortComplexes[c29A].ForwardBuffer.elements[y].Flit.Msg.Dst == old(m.comp.State.PortComplexes[c29A].RouteBuffer.elements[x].Flit.Msg.Dst) && m.comp.State.PortComplexes[c29A].ForwardBuffer.elements[y].Flit.Msg.TrafficClass == old(m.comp.State.PortComplexes[c29A].RouteBuffer.elements[x].Flit.Msg.TrafficClass) && m.comp.State.PortComplexes[c29A].ForwardBuffer.elements[y].Flit.Msg.TrafficBytes == old(m.comp.State.PortComplexes[c29A].RouteBuffer.elements[x].Flit.Msg.TrafficBytes) && m.comp.State.PortComplexes[c29A].ForwardBuffer.elements[y].Flit.Msg.RspTo == old(m.comp.State.PortComplexes[c29A].RouteBuffer.elements[x].Flit.Msg.RspTo) && m.comp.State.PortComplexes[c29A].ForwardBuffer.elements[y].Flit.MsgTaskID == old(m.comp.State.PortComplexes[c29A].RouteBuffer.elements[x].Flit.MsgTaskID) && m.comp.State.PortComplexes[c29A].ForwardBuffer.elements[y].TaskID == old(m.comp.State.PortComplexes[c29A].RouteBuffer.elements[x].TaskID) && m.comp.State.PortComplexes[c29A].ForwardBuffer.elements[y].RouteTo == old(m.comp.State.PortComplexes[c29A].RouteBuffer.elements[x].RouteTo) && m.comp.State.PortComplexes[c29A].ForwardBuffer.elements[y].OutputBufIdx == m.portIndex[tblPort(m.routingTable, old(m.comp.State.PortComplexes[c29A].RouteBuffer.elements[x].RouteTo))]
//@ pred rtCount(m) = 0 <= rtK(m, c29A) && len(m.comp.State.PortComplexes[c29A].RouteBuffer.elements) == old(len(m.comp.State.PortComplexes[c29A].RouteBuffer.elements)) - rtK(m, c29A)
//@ pred rtExact(m) = rtK(m, c29A) == mvd(m.comp.State.PortComplexes[c29A].NumInputChannel, old(len(m.comp.State.PortComplexes[c29A].RouteBuffer.elements)), old(int(m.comp.State.PortComplexes[c29A].ForwardBuffer.cap) - len(m.comp.State.PortComplexes[c29A].ForwardBuffer.elements)))
//@ pred rtShift(m) = forall x in 0..len(m.comp.State.PortComplexes[c29A].RouteBuffer.elements) :: m.comp.State.PortComplexes[c29A].RouteBuffer.elements[x] == old(m.comp.State.PortComplexes[c29A].RouteBuffer.elements)[x + rtK(m, c29A)]
//@ pred rtPrefix(m) = forall x in 0..old(len(m.comp.State.PortComplexes[c29A].ForwardBuffer.elements)) :: m.comp.State.PortComplexes[c29A].ForwardBuffer.elements[x] == old(m.comp.State.PortComplexes[c29A].ForwardBuffer.elements[x])
//@ pred rtMoved(m) = forall y in old(len(m.comp.State.PortComplexes[c29A].ForwardBuffer.elements))..len(m.comp.State.PortComplexes[c29A].ForwardBuffer.elements) :: routedAs(m, y, y - old(len(m.comp.State.PortComplexes[c29A].ForwardBuffer.elements)))
//@ pred rtUntouched(m, lo) = forall a in lo..pcN(m) :: len(m.comp.State.PortComplexes[a].ForwardBuffer.elements) == old(len(m.comp.State.PortComplexes[a].ForwardBuffer.elements)) && len(m.comp.State.PortComplexes[a].RouteBuffer.elements) == old(len(m.comp.State.PortComplexes[a].RouteBuffer.elements))

//@ fn (*routeForwardSendMW).route
//@   property C29
//@   requires swShape(m) && aPort(m) && tableTotal(m) && fwdBufWF(m) && rtSep(m)
//@   label C29.route.count
//@   ensures rtCount(m)
//@   label C29.route.exact
//@   ensures rtExact(m)
//@   label C29.route.keep
//@   ensures rtShift(m)
//@   label C29.route.prefix
//@   ensures rtPrefix(m)
//@   label C29.route.moved
//@   ensures rtMoved(m)
//@   label C29.route.progress
//@   ensures !result ==> rtK(m, c29A) == 0
//@   label C29.route.wf
//@   ensures fwdBufWF(m)
//@   assigns key("E|noc/networking/switching/switches.portComplexState|.RouteBuffer.elements"), key("E|noc/networking/switching/switches.portComplexState|.ForwardBuffer.elements"), key("E|noc/networking/switching/switches.routedFlit|")
//@   loop 0: invariant swShape(m) && aPort(m) && tableTotal(m) && fwdBufWF(m) && rtSep(m) && -1 <= rangeindex && rangeindex < len(grp(m))
//@   loop 0: invariant rtCount(m) && (c29A <= rangeindex ==> rtExact(m)) && (!madeProgress ==> rtK(m, c29A) == 0)
//@   loop 0: invariant rtUntouched(m, rangeindex + 1)
//@   loop 0: invariant rtShift(m)
//@   loop 0: invariant rtPrefix(m)
//@   loop 0: invariant rtMoved(m)
//@   loop 1: invariant swShape(m) && aPort(m) && tableTotal(m) && fwdBufWF(m) && rtSep(m) && 0 <= j && j == rtK(m, i) && len(m.comp.State.PortComplexes[i].RouteBuffer.elements) == old(len(m.comp.State.PortComplexes[i].RouteBuffer.elements)) - j
//@   loop 1: invariant (j > 0 ==> j <= m.comp.State.PortComplexes[i].NumInputChannel) && j <= old(len(m.comp.State.PortComplexes[i].RouteBuffer.elements)) && j <= max(0, old(int(m.comp.State.PortComplexes[i].ForwardBuffer.cap) - len(m.comp.State.PortComplexes[i].ForwardBuffer.elements)))
//@   loop 1: invariant rtCount(m) && (c29A < i ==> rtExact(m)) && (!madeProgress ==> rtK(m, c29A) == 0)
//@   loop 1: invariant rtUntouched(m, i + 1)
//@   loop 1: invariant rtShift(m)
//@   loop 1: invariant rtPrefix(m)
//@   loop 1: invariant rtMoved(m)

// ---- forward: input side = port A's forward buffer, output side = port B's send-out buffer (A, B arbitrary) ----
//@ func fwK(m) = old(len(m.comp.State.PortComplexes[c29A].ForwardBuffer.elements)) - len(m.comp.State.PortComplexes[c29A].ForwardBuffer.elements)            // flits taken from A's forward buffer
//@ func fwG(m) = len(m.comp.State.PortComplexes[c29B].SendOutBuffer.elements) - old(len(m.comp.State.PortComplexes[c29B].SendOutBuffer.elements))          // flits appended to B's send-out buffer
//@ pred bPort(m) = 0 <= c29B && c29B < pcN(m)
//@ pred sobWF(m) = forall b in 0..pcN(m) :: len(m.comp.State.PortComplexes[b].SendOutBuffer.elements) <= max(int(m.comp.State.PortComplexes[b].SendOutBuffer.cap), 0)
// every queued flit carries the index of an existing port complex (established by route: portIndex values; assumed here)
//@ pred idxOK(m) = forall a in 0..pcN(m) :: forall x in 0..len(m.comp.State.PortComplexes[a].ForwardBuffer.elements) :: 0 <= m.comp.State.PortComplexes[a].ForwardBuffer.elements[x].OutputBufIdx && m.comp.State.PortComplexes[a].ForwardBuffer.elements[x].OutputBufIdx < pcN(m)
// separation (precondition): no forward buffer shares its backing array with a (non-nil) send-out buffer; B's send-out buffer shares with no other
//@ pred fwSep(m) = (forall a in 0..pcN(m) :: ref(m.comp.State.PortComplexes[a].ForwardBuffer.elements) <= allocTop && (forall b in 0..pcN(m) :: ref(m.comp.State.PortComplexes[b].SendOutBuffer.elements) != 0 ==> ref(m.comp.State.PortComplexes[a].ForwardBuffer.elements) != ref(m.comp.State.PortComplexes[b].SendOutBuffer.elements))) && ref(m.comp.State.PortComplexes[c29B].SendOutBuffer.elements) <= allocTop && (forall b in 0..pcN(m) :: b != c29B && ref(m.comp.State.PortComplexes[b].SendOutBuffer.elements) != 0 ==> ref(m.comp.State.PortComplexes[c29B].SendOutBuffer.elements) != ref(m.comp.State.PortComplexes[b].SendOutBuffer.elements))
//@ pred fwBasics(m) = swShape(m) && aPort(m) && bPort(m) && 0 < pcN(m) && pcN(m) < 4611686018427387904 && sobWF(m)
//@ pred fwInCount(m) = 0 <= fwK(m) && fwK(m) <= old(len(m.comp.State.PortComplexes[c29A].ForwardBuffer.elements))
//@ pred fwInKeep(m) = forall x in 0..len(m.comp.State.PortComplexes[c29A].ForwardBuffer.elements) :: m.comp.State.PortComplexes[c29A].ForwardBuffer.elements[x] == old(m.comp.State.PortComplexes[c29A].ForwardBuffer.elements)[x + fwK(m)]
//@ pred fwOutCount(m) = fwG(m) == 0 || fwG(m) == 1
//@ pred fwOutPrefix(m) = forall x in 0..old(len(m.comp.State.PortComplexes[c29B].SendOutBuffer.elements)) :: m.comp.State.PortComplexes[c29B].SendOutBuffer.elements[x] == old(m.comp.State.PortComplexes[c29B].SendOutBuffer.elements[x])
//@ pred fwOutNew(m) = fwG(m) == 1 ==> m.comp.State.PortComplexes[c29B].SendOutBuffer.elements[old(len(m.comp.State.PortComplexes[c29B].SendOutBuffer.elements))].OutputBufIdx == c29B
// every flit taken from A whose output index is B is (unchanged, all 18 fields) the one entry appended to B's send-out buffer
//@ pred fwRouted(m) = forall x in 0..fwK(m) :: old(m.comp.State.PortComplexes[c29A].ForwardBuffer.elements)[x].OutputBufIdx == c29B ==> fwG(m) == 1 && m.comp.State.PortComplexes[c29B].SendOutBuffer.elements[old(len(m.comp.State.PortComplexes[c29B].SendOutBuffer.elements))] == old(m.comp.State.PortComplexes[c29A].ForwardBuffer.elements)[x]

//@ fn (*routeForwardSendMW).forward
//@   property C29
//@   requires fwBasics(m) && idxOK(m) && fwSep(m) && 0 <= m.comp.State.NextArbPort && m.comp.State.NextArbPort < pcN(m)
//@   label C29.fwd.in.count
//@   ensures fwInCount(m)
//@   label C29.fwd.in.keep
//@   ensures fwInKeep(m)
//@   label C29.fwd.out.count
//@   ensures fwOutCount(m)
//@   label C29.fwd.out.prefix
//@   ensures fwOutPrefix(m)
//@   label C29.fwd.out.new
//@   ensures fwOutNew(m)
//@   label C29.fwd.routed
//@   ensures fwRouted(m)
//@   label C29.fwd.progress
//@   ensures !result ==> fwK(m) == 0 && fwG(m) == 0
//@   label C29.fwd.wf
//@   ensures sobWF(m) && idxOK(m)
//@   label C29.fwd.arb
//@   ensures m.comp.State.NextArbPort == (old(m.comp.State.NextArbPort) + 1 < pcN(m) ? old(m.comp.State.NextArbPort) + 1 : 0)
//@   assigns m.comp.State.NextArbPort, key("E|noc/networking/switching/switches.portComplexState|.ForwardBuffer.elements"), key("E|noc/networking/switching/switches.portComplexState|.SendOutBuffer.elements"), key("E|noc/networking/switching/switches.routedFlit|")
//@   loop 0: invariant fwBasics(m) && 0 <= offset && offset <= pcN(m) && len(occupiedOutputPort) == pcN(m) && unchanged(m.comp.State.NextArbPort)
//@   loop 0: invariant idxOK(m)
//@   loop 0: invariant fwSep(m)
//@   loop 0: invariant fwInCount(m) && fwOutCount(m) && (occupiedOutputPort[c29B] <==> fwG(m) == 1) && (!madeProgress ==> fwK(m) == 0 && fwG(m) == 0)
//@   loop 0: invariant fwInKeep(m)
//@   loop 0: invariant fwOutPrefix(m)
//@   loop 0: invariant fwOutNew(m)
//@   loop 0: invariant fwRouted(m)
//@   loop 1: invariant fwBasics(m) && 0 <= offset && offset < pcN(m) && 0 <= i && i < pcN(m) && len(occupiedOutputPort) == pcN(m) && unchanged(m.comp.State.NextArbPort)
//@   loop 1: invariant idxOK(m)
//@   loop 1: invariant fwSep(m)
//@   loop 1: invariant fwInCount(m) && fwOutCount(m) && (occupiedOutputPort[c29B] <==> fwG(m) == 1) && (!madeProgress ==> fwK(m) == 0 && fwG(m) == 0)
//@   loop 1: invariant fwInKeep(m)
//@   loop 1: invariant fwOutPrefix(m)
//@   loop 1: invariant fwOutNew(m)
//@   loop 1: invariant fwRouted(m)
