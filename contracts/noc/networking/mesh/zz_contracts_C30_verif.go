//go:build verif

// Contracts for package mesh (comment-only; read by /verif/engine, never compiled into a build).
package mesh

// ---- C30(c): mesh routing makes exactly Manhattan-distance many hops ----
// Directions: 0 = local (deliver here), 1 = front (z-1), 2 = back (z+1), 3 = top (y-1), 4 = bottom (y+1),
// 5 = left (x-1), 6 = right (x+1).  ASSUMED wiring invariant (established in mesh.go createSwitches/createLinks,
// not verified): in the table of tile (x,y,z), front/back/top/bottom/left/right name the switch port that leads to the
// tile stepX/Y/Z(.., dir) and local names the port to the tile's own end point.

//@ func c30abs(a, b) = a < b ? b - a : a - b
//@ func c30dist(x, y, z, dx, dy, dz) = c30abs(x, dx) + c30abs(y, dy) + c30abs(z, dz)
//@ func c30stepX(x, dir) = dir == 5 ? x - 1 : (dir == 6 ? x + 1 : x)
//@ func c30stepY(y, dir) = dir == 3 ? y - 1 : (dir == 4 ? y + 1 : y)
//@ func c30stepZ(z, dir) = dir == 1 ? z - 1 : (dir == 2 ? z + 1 : z)
// The dimension order of the real code: Z first, then Y, then X.
//@ func c30dir(x, y, z, dx, dy, dz) = dz < z ? 1 : (dz > z ? 2 : (dy < y ? 3 : (dy > y ? 4 : (dx < x ? 5 : (dx > x ? 6 : 0)))))
// dir is a correct next hop from (x,y,z) towards (dx,dy,dz): local exactly at distance 0, otherwise a neighbour that is
// closer by exactly one.
//@ pred c30goodDir(x, y, z, dx, dy, dz, dir) = dir == 0 ? c30dist(x, y, z, dx, dy, dz) == 0 : (1 <= dir && dir <= 6 && c30dist(c30stepX(x, dir), c30stepY(y, dir), c30stepZ(z, dir), dx, dy, dz) == c30dist(x, y, z, dx, dy, dz) - 1)
//@ func c30port(t, dir) = dir == 1 ? t.front : (dir == 2 ? t.back : (dir == 3 ? t.top : (dir == 4 ? t.bottom : (dir == 5 ? t.left : (dir == 6 ? t.right : t.local)))))

//@ fn (*meshRoutingTable).FindPort
//@   property C30
//@   panics !(dst in t.dstTable) || t.dstTable[dst] == nil || t.dstTable[dst].rt == nil
//@   label C30.mesh.step
//@   ensures (result == t.local && c30goodDir(t.x, t.y, t.z, t.dstTable[dst].rt.x, t.dstTable[dst].rt.y, t.dstTable[dst].rt.z, 0)) || (result == t.front && c30goodDir(t.x, t.y, t.z, t.dstTable[dst].rt.x, t.dstTable[dst].rt.y, t.dstTable[dst].rt.z, 1)) || (result == t.back && c30goodDir(t.x, t.y, t.z, t.dstTable[dst].rt.x, t.dstTable[dst].rt.y, t.dstTable[dst].rt.z, 2)) || (result == t.top && c30goodDir(t.x, t.y, t.z, t.dstTable[dst].rt.x, t.dstTable[dst].rt.y, t.dstTable[dst].rt.z, 3)) || (result == t.bottom && c30goodDir(t.x, t.y, t.z, t.dstTable[dst].rt.x, t.dstTable[dst].rt.y, t.dstTable[dst].rt.z, 4)) || (result == t.left && c30goodDir(t.x, t.y, t.z, t.dstTable[dst].rt.x, t.dstTable[dst].rt.y, t.dstTable[dst].rt.z, 5)) || (result == t.right && c30goodDir(t.x, t.y, t.z, t.dstTable[dst].rt.x, t.dstTable[dst].rt.y, t.dstTable[dst].rt.z, 6))
//@   label C30.mesh.dimorder
//@   ensures result == c30port(t, c30dir(t.x, t.y, t.z, t.dstTable[dst].rt.x, t.dstTable[dst].rt.y, t.dstTable[dst].rt.z))
//@   assigns nothing

//@ fn (*meshRoutingTable).DefineRoute
//@   property C30
//@   label C30.mesh.defineroute.noop
//@   ensures nothingAssigned()
//@   assigns nothing

//@ fn (*meshRoutingTable).DefineDefaultRoute
//@   property C30
//@   label C30.mesh.definedefault
//@   ensures t.local == outputPort
//@   assigns t.local

// ---- lemmas: the dimension-ordered step is a correct next hop, stays between source and destination, and the route
// it generates has the closed form c30pathX/Y/Z(j) (position after j hops): Z is corrected first, then Y, then X.

//@ lemma c30DirGood(x, y, z, dx, dy, dz)
//@   property C30
//@   label C30.lemma.dirgood
//@   ensures c30goodDir(x, y, z, dx, dy, dz, c30dir(x, y, z, dx, dy, dz))
//@   label C30.lemma.localiff
//@   ensures (c30dir(x, y, z, dx, dy, dz) == 0) <==> (x == dx && y == dy && z == dz)
//@   label C30.lemma.distzero
//@   ensures (c30dist(x, y, z, dx, dy, dz) == 0) <==> (x == dx && y == dy && z == dz)

//@ lemma c30StepInBox(x, y, z, dx, dy, dz)
//@   property C30
//@   label C30.lemma.inbox
//@   ensures min(x, dx) <= c30stepX(x, c30dir(x, y, z, dx, dy, dz)) && c30stepX(x, c30dir(x, y, z, dx, dy, dz)) <= max(x, dx) && min(y, dy) <= c30stepY(y, c30dir(x, y, z, dx, dy, dz)) && c30stepY(y, c30dir(x, y, z, dx, dy, dz)) <= max(y, dy) && min(z, dz) <= c30stepZ(z, c30dir(x, y, z, dx, dy, dz)) && c30stepZ(z, c30dir(x, y, z, dx, dy, dz)) <= max(z, dz)

//@ func c30clamp(v, hi) = v < 0 ? 0 : (v > hi ? hi : v)
//@ func c30toward(a, b, n) = a < b ? a + n : a - n
//@ func c30pathZ(x, y, z, dx, dy, dz, j) = c30toward(z, dz, c30clamp(j, c30abs(z, dz)))
//@ func c30pathY(x, y, z, dx, dy, dz, j) = c30toward(y, dy, c30clamp(j - c30abs(z, dz), c30abs(y, dy)))
//@ func c30pathX(x, y, z, dx, dy, dz, j) = c30toward(x, dx, c30clamp(j - c30abs(z, dz) - c30abs(y, dy), c30abs(x, dx)))

//@ lemma c30PathEnds(x, y, z, dx, dy, dz)
//@   property C30
//@   label C30.lemma.path.start
//@   ensures c30pathX(x, y, z, dx, dy, dz, 0) == x && c30pathY(x, y, z, dx, dy, dz, 0) == y && c30pathZ(x, y, z, dx, dy, dz, 0) == z
//@   label C30.lemma.path.end
//@   ensures c30pathX(x, y, z, dx, dy, dz, c30dist(x, y, z, dx, dy, dz)) == dx && c30pathY(x, y, z, dx, dy, dz, c30dist(x, y, z, dx, dy, dz)) == dy && c30pathZ(x, y, z, dx, dy, dz, c30dist(x, y, z, dx, dy, dz)) == dz

//@ lemma c30Path(x, y, z, dx, dy, dz, j)
//@   property C30
//@   requires 0 <= j && j < c30dist(x, y, z, dx, dy, dz)
//@   label C30.lemma.path.measure
//@   ensures c30dist(c30pathX(x, y, z, dx, dy, dz, j), c30pathY(x, y, z, dx, dy, dz, j), c30pathZ(x, y, z, dx, dy, dz, j), dx, dy, dz) == c30dist(x, y, z, dx, dy, dz) - j
//@   label C30.lemma.path.notyet
//@   ensures c30dir(c30pathX(x, y, z, dx, dy, dz, j), c30pathY(x, y, z, dx, dy, dz, j), c30pathZ(x, y, z, dx, dy, dz, j), dx, dy, dz) != 0
//@   label C30.lemma.path.stepx
//@   ensures c30pathX(x, y, z, dx, dy, dz, j + 1) == c30stepX(c30pathX(x, y, z, dx, dy, dz, j), c30dir(c30pathX(x, y, z, dx, dy, dz, j), c30pathY(x, y, z, dx, dy, dz, j), c30pathZ(x, y, z, dx, dy, dz, j), dx, dy, dz))
//@   label C30.lemma.path.stepy
//@   ensures c30pathY(x, y, z, dx, dy, dz, j + 1) == c30stepY(c30pathY(x, y, z, dx, dy, dz, j), c30dir(c30pathX(x, y, z, dx, dy, dz, j), c30pathY(x, y, z, dx, dy, dz, j), c30pathZ(x, y, z, dx, dy, dz, j), dx, dy, dz))
//@   label C30.lemma.path.stepz
//@   ensures c30pathZ(x, y, z, dx, dy, dz, j + 1) == c30stepZ(c30pathZ(x, y, z, dx, dy, dz, j), c30dir(c30pathX(x, y, z, dx, dy, dz, j), c30pathY(x, y, z, dx, dy, dz, j), c30pathZ(x, y, z, dx, dy, dz, j), dx, dy, dz))
