//go:build verif

// Contracts for package routing (comment-only; read by /verif/engine, never compiled into a build).
package routing

// ---- C30(b): routing.table is a finite map with a default ----
// View: routes = t.t (final destination -> output port), dflt = t.defaultPort.

//@ fn NewTable
//@   property C30
//@   label C30.newtable.type
//@   ensures hastype(result, "*table") && as(result, "*table") != nil && fresh(as(result, "*table"))
//@   label C30.newtable.empty
//@   ensures as(result, "*table").t != nil && len(as(result, "*table").t) == 0 && (forall k int :: !(k in as(result, "*table").t))
//@   assigns nothing

//@ fn (table).FindPort
//@   property C30
//@   label C30.findport.hit
//@   ensures (dst in t.t) ==> result == t.t[dst]
//@   label C30.findport.miss
//@   ensures !(dst in t.t) ==> result == t.defaultPort
//@   assigns nothing

//@ fn (*table).DefineRoute
//@   property C30
//@   panics t.t == nil
//@   label C30.defineroute.new
//@   ensures (finalDst in t.t) && t.t[finalDst] == outputPort
//@   label C30.defineroute.others
//@   ensures forall k int :: k != finalDst ==> ((k in t.t) <==> old(k in t.t)) && t.t[k] == old(t.t[k])
//@   label C30.defineroute.len
//@   ensures len(t.t) == (old(finalDst in t.t) ? old(len(t.t)) : old(len(t.t)) + 1)
//@   label C30.defineroute.frame
//@   ensures t.defaultPort == old(t.defaultPort) && t.t == old(t.t)
//@   assigns elems(t.t)

//@ fn (*table).DefineDefaultRoute
//@   property C30
//@   label C30.definedefault.set
//@   ensures t.defaultPort == outputPort
//@   label C30.definedefault.frame
//@   ensures t.t == old(t.t) && (forall k int :: ((k in t.t) <==> old(k in t.t)) && t.t[k] == old(t.t[k]))
//@   assigns t.defaultPort
