//go:build verif

// Contracts for package networkconnector (comment-only; read by /verif/engine, never compiled into a build).
package networkconnector

// ---- C30(a): a connector reused for a new network behaves like a fresh one ----
// Topology state of a Connector = (switches, devices, connectionCount); everything else is configuration.
// A fresh connector (MakeConnector) has no switches, no devices and connectionCount == 0.

//@ pred c30FreshTopology(c) = len(c.switches) == 0 && len(c.devices) == 0 && c.connectionCount == 0

//@ fn MakeConnector
//@   property C30
//@   label C30.makeconnector.fresh
//@   ensures len(result.switches) == 0 && len(result.devices) == 0 && result.connectionCount == 0
//@   label C30.makeconnector.config
//@   ensures result.flitSize == 64 && result.monitor == nil
//@   assigns nothing

//@ fn (*Connector).NewNetwork
//@   property C30
//@   label C30.newnetwork.name
//@   ensures c.name == name
//@   label C30.newnetwork.switches
//@   ensures len(c.switches) == 0
//@   label C30.newnetwork.devices
//@   ensures len(c.devices) == 0
//@   label C30.newnetwork.conncount
//@   ensures c.connectionCount == 0
//@   label C30.newnetwork.config
//@   ensures c.engine == old(c.engine) && c.registrar == old(c.registrar) && c.monitor == old(c.monitor) && c.defaultFreq == old(c.defaultFreq) && c.flitSize == old(c.flitSize) && c.router == old(c.router) && c.visTracer == old(c.visTracer) && c.nocTracer == old(c.nocTracer)
//@   assigns c.name, c.switches, c.devices, c.connectionCount

// The node list handed to the router: every device of c.devices, then every switch of c.switches, in order. (This is
// where devices left over from a previous network would leak into the routing of the next one.)
//@ fn (*Connector).createRoutingNodeList
//@   property C30
//@   requires len(c.devices) + len(c.switches) <= 1<<62      // address-space fact: the engine's make() safety bound
//@   label C30.nodelist.len
//@   ensures len(result) == len(c.devices) + len(c.switches)
//@   label C30.nodelist.devices
//@   ensures forall i in 0..len(c.devices) :: hastype(result[i], "*deviceNode") && as(result[i], "*deviceNode") == c.devices[i]
//@   label C30.nodelist.switches
//@   ensures forall i in 0..len(c.switches) :: hastype(result[len(c.devices) + i], "*switchNode") && as(result[len(c.devices) + i], "*switchNode") == c.switches[i]
//@   assigns nothing
//@   loop 0: invariant -1 <= rangeindex && rangeindex < len(c.devices) && len(nodes) == rangeindex + 1 && cap(nodes) >= len(c.devices) + len(c.switches) && fresh(nodes)
//@   loop 0: invariant forall i in 0..rangeindex + 1 :: hastype(nodes[i], "*deviceNode") && as(nodes[i], "*deviceNode") == c.devices[i]
//@   loop 1: invariant -1 <= rangeindex && rangeindex < len(c.switches) && len(nodes) == len(c.devices) + rangeindex + 1 && cap(nodes) >= len(c.devices) + len(c.switches) && fresh(nodes)
//@   loop 1: invariant forall i in 0..len(c.devices) :: hastype(nodes[i], "*deviceNode") && as(nodes[i], "*deviceNode") == c.devices[i]
//@   loop 1: invariant forall i in 0..rangeindex + 1 :: hastype(nodes[len(c.devices) + i], "*switchNode") && as(nodes[len(c.devices) + i], "*switchNode") == c.switches[i]

// ---- C30(d): floydWarshall — UNBOUNDED safety and algebraic facts only; "shortest" and "loop-free" are NOT decided ----
// (a full proof needs a path-witness invariant over the in-place k-loop; out of budget).  What is proved for every n:
// no index out of range on a square table, no uint32 overflow (all sums stay <= 2*INF with INF = 2n, stated through the
// positivity postcondition which is false under wrap-around), distances only decrease and stay <= INF, the diagonal stays
// (0, same hop), off-diagonal distances stay >= 1, every entry with a finite distance has a non-nil next hop, and only
// the distance/nextHop fields of the cells are written.

//@ pred c30Square(table) = forall i in 0..len(table) :: len(table[i]) == len(table)
//@ pred c30RowsDistinct(table) = forall a in 0..len(table) :: forall b in 0..len(table) :: a != b ==> ref(table[a]) != ref(table[b])
//@ pred c30DistLe(table, B) = forall i in 0..len(table) :: forall j in 0..len(table) :: 0 <= table[i][j].distance && table[i][j].distance <= B
//@ pred c30DiagZero(table) = forall i in 0..len(table) :: table[i][i].distance == 0
//@ pred c30OffDiagPos(table) = forall i in 0..len(table) :: forall j in 0..len(table) :: i != j ==> table[i][j].distance >= 1
//@ pred c30HopWF(table) = forall i in 0..len(table) :: forall j in 0..len(table) :: table[i][j].distance < 2 * len(table) ==> table[i][j].nextHop != nil
// every stored next hop of row i is a link that leaves node i (row i's source): the hop can actually be taken from i
// (off-diagonal cells only: the diagonal hop is `&remotes[0]`, a pointer into ListRemotes' result, which the engine models as a
// separate object with arbitrary contents; a diagonal hop is never copied to another cell since d[i][i] == 0 never improves a route)
//@ pred c30HopLocal(table) = forall i in 0..len(table) :: forall j in 0..len(table) :: i != j && table[i][j].nextHop != nil ==> table[i][j].nextHop.LocalNode == table[i][j].src
//@ pred c30RowSrc(table) = forall i in 0..len(table) :: forall j in 0..len(table) :: table[i][j].src == table[i][i].src

// floydWarshall's entry condition = floydWarshallInit's exit condition (ONE predicate, used by both):
// square table with pairwise distinct rows; INF = 2*len(table) and 4*len(table) fits uint32 (so the sum of two cells cannot wrap);
// every distance in 0..INF, diagonal 0, off-diagonal >= 1; a finite cell has a non-nil next hop; an off-diagonal next hop is a
// link leaving the row's node; one source node per row.
//@ pred c30FWPre(table) = c30Square(table) && c30RowsDistinct(table) && 4 * len(table) <= 4294967295 && c30DistLe(table, 2 * len(table)) && c30DiagZero(table) && c30OffDiagPos(table) && c30HopWF(table) && c30HopLocal(table) && c30RowSrc(table)

//@ fn (FloydWarshallRouter).floydWarshall
//@   property C30
//@   bounded NOT a shortest-path proof: safety + monotonicity + well-formedness for every n (4n <= MaxUint32); optimality/loop-freedom undecided
//@   label C30.fw.pre
//@   requires c30FWPre(table)
//@   label C30.fw.hoplocal
//@   ensures c30HopLocal(table)
//@   label C30.fw.bound
//@   ensures c30DistLe(table, 2 * len(table))
//@   label C30.fw.mono
//@   ensures forall i in 0..len(table) :: forall j in 0..len(table) :: table[i][j].distance <= old(table[i][j].distance)
//@   label C30.fw.diag
//@   ensures forall i in 0..len(table) :: table[i][i].distance == 0 && table[i][i].nextHop == old(table[i][i].nextHop)
//@   label C30.fw.offdiag
//@   ensures c30OffDiagPos(table)
//@   label C30.fw.hopwf
//@   ensures c30HopWF(table)
//@   assigns key("E|noc/networking/networkconnector.routeInfo|.distance"), key("E|noc/networking/networkconnector.routeInfo|.nextHop")
//@   loop 0: invariant -1 <= rangeindex && rangeindex < len(table) && c30Square(table) && c30RowsDistinct(table) && c30DistLe(table, 2 * len(table)) && c30DiagZero(table) && c30OffDiagPos(table) && c30HopWF(table) && c30HopLocal(table)
//@   loop 0: invariant forall i in 0..len(table) :: forall j in 0..len(table) :: table[i][j].distance <= old(table[i][j].distance)
//@   loop 0: invariant forall i in 0..len(table) :: table[i][i].nextHop == old(table[i][i].nextHop)
//@   loop 1: invariant -1 <= rangeindex && rangeindex < len(table) && c30Square(table) && c30RowsDistinct(table) && c30DistLe(table, 2 * len(table)) && c30DiagZero(table) && c30OffDiagPos(table) && c30HopWF(table) && c30HopLocal(table)
//@   loop 1: invariant forall i in 0..len(table) :: forall j in 0..len(table) :: table[i][j].distance <= old(table[i][j].distance)
//@   loop 1: invariant forall i in 0..len(table) :: table[i][i].nextHop == old(table[i][i].nextHop)
//@   loop 2: invariant -1 <= rangeindex && rangeindex < len(table) && c30Square(table) && c30RowsDistinct(table) && c30DistLe(table, 2 * len(table)) && c30DiagZero(table) && c30OffDiagPos(table) && c30HopWF(table) && c30HopLocal(table)
//@   loop 2: invariant forall i in 0..len(table) :: forall j in 0..len(table) :: table[i][j].distance <= old(table[i][j].distance)
//@   loop 2: invariant forall i in 0..len(table) :: table[i][i].nextHop == old(table[i][i].nextHop)
// ground instance at the cell written last
//@   label C30.fw.cell.hoplocal
//@   loop 2: invariant rangeindex >= 0 && rangeindex != i ==> (table[i][rangeindex].nextHop != nil ==> table[i][rangeindex].nextHop.LocalNode == table[i][i].src)

// ---- floydWarshallInit: establishes floydWarshall's entry condition (c30FWPre) ----
// ListRemotes is an interface method (open world): TRUSTED summary. It writes nothing; the number of links it reports is an
// opaque attribute of the node (c30RemCount, so that "every node has at least one link" can be stated on entry); every reported
// link leaves the node itself (LocalNode == self: true by construction in connector.go connectSwitches/connectEndPointToSwitch,
// NOT verified here). Contents are otherwise unconstrained.
//@ ufunc c30RemCount(n) int
//@ iface networkconnector.Node.ListRemotes()
//@   trusted
//@   ensures len(result) == c30RemCount(self)
//@   ensures forall k in 0..len(result) :: result[k].LocalNode == self
//@   assigns nothing

// one initialised cell (row a, column b, n nodes, row's node sn): diagonal = (0, some link); a direct link = (1, that link, leaving
// sn); anything else = (INF = 2n, no hop).  `<= allocTop`: the hop is an allocated object (later allocations cannot alias it).
//@ pred c30Cell(c, a, b, n, sn) = c.src == sn && c.nextHop <= allocTop && (a == b ==> c.distance == 0 && c.nextHop != nil) && (a != b ==> ((c.distance == 1 && c.nextHop != nil && c.nextHop.LocalNode == sn) || (c.distance == 2 * n && c.nextHop == nil)))
//@ pred c30InitRows(table, nodes, r) = forall a in 0..r :: len(table[a]) == len(nodes) && fresh(table[a]) && ref(table[a]) <= allocTop
//@ pred c30InitSep(table, r) = forall a in 0..r :: forall b in 0..a :: ref(table[a]) != ref(table[b])
//@ pred c30InitCells(table, nodes, r) = forall a in 0..r :: forall b in 0..len(nodes) :: c30Cell(table[a][b], a, b, len(nodes), nodes[a])
//@ pred c30NodesOK(nodes) = forall a in 0..len(nodes) :: nodes[a] != nil && c30RemCount(nodes[a]) >= 1

//@ fn (FloydWarshallRouter).floydWarshallInit
//@   property C30
// REQUIRES (not `panics`): with more rows than nodes `nodes[i]` is out of range, a nil node or a node without links makes
// `nodes[i].ListRemotes()` / `&remotes[0]` panic - real panics, excluded here by precondition because "which node has no link" is
// only expressible through the trusted attribute c30RemCount.  4n <= MaxUint32: uint32(2*len(nodes)) is not truncated (and make() bound).
//@   requires len(table) == len(nodes) && 4 * len(nodes) <= 4294967295 && c30NodesOK(nodes)
//@   label C30.init.fwpre
//@   ensures c30FWPre(table)
//@   label C30.init.cells
//@   ensures c30InitCells(table, nodes, len(nodes))
//@   assigns elems(table)
//@   loop 0: invariant -1 <= rangeindex && rangeindex < len(table) && len(table) == len(nodes)
//@   loop 0: invariant c30InitRows(table, nodes, rangeindex + 1)
//@   loop 0: invariant c30InitSep(table, rangeindex + 1)
//@   loop 0: invariant c30InitCells(table, nodes, rangeindex + 1)
//@   loop 1: invariant 0 <= i && i < len(table) && len(table) == len(nodes) && -1 <= rangeindex && rangeindex < len(nodes)
//@   loop 1: invariant c30InitRows(table, nodes, i + 1)
//@   loop 1: invariant c30InitSep(table, i + 1)
//@   loop 1: invariant c30InitCells(table, nodes, i)
//@   loop 1: invariant forall b in 0..rangeindex + 1 :: c30Cell(table[i][b], i, b, len(nodes), nodes[i])
//@   loop 1: invariant forall b in rangeindex + 1..len(nodes) :: table[i][b].nextHop == nil      // make() zeroed the row; not written yet
// ground instances at the cell written last (named obligations for the two ways of getting a cell wrong)
//@   label C30.init.cell.inf
//@   loop 1: invariant rangeindex >= 0 && rangeindex != i && table[i][rangeindex].nextHop == nil ==> table[i][rangeindex].distance == 2 * len(nodes)
//@   label C30.init.cell.link
//@   loop 1: invariant rangeindex >= 0 && rangeindex != i && table[i][rangeindex].nextHop != nil ==> table[i][rangeindex].distance == 1

// EstablishRoute = make table; Init; floydWarshall; tableToRoute.  THIN: what is checked is that the table handed to floydWarshall
// satisfies its entry condition (call-site obligation floydWarshall#requires, discharged from floydWarshallInit's postcondition).
// tableToRoute has no contract (it havocs the heap; its nil-dereference on unreachable devices is NOT decided), hence no assigns/ensures.
//@ fn (FloydWarshallRouter).EstablishRoute
//@   property C30
//@   requires 4 * len(nodes) <= 4294967295 && c30NodesOK(nodes)
//@   panics any

// findRemote: a copy of the FIRST link of l that leads to node t, or nil when no link does.
//@ fn findRemote
//@   property C30
//@   label C30.findremote.nil
//@   ensures (result == nil) <==> (forall k in 0..len(l) :: l[k].RemoteNode != t)
//@   label C30.findremote.hit
//@   ensures result != nil ==> fresh(result) && result.RemoteNode == t
//@   label C30.findremote.first
//@   ensures forall k in 0..len(l) :: (l[k].RemoteNode == t && (forall m in 0..k :: l[m].RemoteNode != t)) ==> result != nil && result.LocalPort == l[k].LocalPort && result.LocalNode == l[k].LocalNode && result.RemotePort == l[k].RemotePort && result.Link == l[k].Link
// the copy IS one of l's links (explicit membership: callers need it without an induction over "first")
//@   label C30.findremote.member
//@   ensures result != nil ==> exists k in 0..len(l) :: l[k].RemoteNode == t && result.LocalNode == l[k].LocalNode && result.LocalPort == l[k].LocalPort
//@   assigns nothing
//@   loop 0: invariant -1 <= rangeindex && rangeindex < len(l)
//@   loop 0: invariant forall k in 0..rangeindex + 1 :: l[k].RemoteNode != t
