//go:build verif

// Contracts for package networkconnector (comment-only; read by /verif/engine, never compiled into a build).
package networkconnector

// ---- C30(a): a connector reused for a new network behaves like a fresh one ----
// Topology state of a Connector = (switches, devices, connectionCount); everything else is configuration.
// A fresh connector (MakeConnector) has no switches, no devices and connectionCount == 0.

//@ pred c30FreshTopology(c) = len(c.switches) == 0 && len(c.devices) == 0 && c.connectionCount == 0

//@ fn MakeConnector
//@   property C30
//@   label C30.makeconnector.fresh
//@   ensures len(result.switches) == 0 && len(result.devices) == 0 && result.connectionCount == 0
//@   label C30.makeconnector.config
//@   ensures result.flitSize == 64 && result.monitor == nil
//@   assigns nothing

//@ fn (*Connector).NewNetwork
//@   property C30
//@   label C30.newnetwork.name
//@   ensures c.name == name
//@   label C30.newnetwork.switches
//@   ensures len(c.switches) == 0
//@   label C30.newnetwork.devices
//@   ensures len(c.devices) == 0
//@   label C30.newnetwork.conncount
//@   ensures c.connectionCount == 0
//@   label C30.newnetwork.config
//@   ensures c.engine == old(c.engine) && c.registrar == old(c.registrar) && c.monitor == old(c.monitor) && c.defaultFreq == old(c.defaultFreq) && c.flitSize == old(c.flitSize) && c.router == old(c.router) && c.visTracer == old(c.visTracer) && c.nocTracer == old(c.nocTracer)
//@   assigns c.name, c.switches, c.devices, c.connectionCount

// The node list handed to the router: every device of c.devices, then every switch of c.switches, in order. (This is
// where devices left over from a previous network would leak into the routing of the next one.)
//@ fn (*Connector).createRoutingNodeList
//@   property C30
//@   requires len(c.devices) + len(c.switches) <= 1<<62      // address-space fact: the engine's make() safety bound
//@   label C30.nodelist.len
//@   ensures len(result) == len(c.devices) + len(c.switches)
//@   label C30.nodelist.devices
//@   ensures forall i in 0..len(c.devices) :: hastype(result[i], "*deviceNode") && as(result[i], "*deviceNode") == c.devices[i]
//@   label C30.nodelist.switches
//@   ensures forall i in 0..len(c.switches) :: hastype(result[len(c.devices) + i], "*switchNode") && as(result[len(c.devices) + i], "*switchNode") == c.switches[i]
//@   assigns nothing
//@   loop 0: invariant -1 <= rangeindex && rangeindex < len(c.devices) && len(nodes) == rangeindex + 1 && cap(nodes) >= len(c.devices) + len(c.switches) && fresh(nodes)
//@   loop 0: invariant forall i in 0..rangeindex + 1 :: hastype(nodes[i], "*deviceNode") && as(nodes[i], "*deviceNode") == c.devices[i]
//@   loop 1: invariant -1 <= rangeindex && rangeindex < len(c.switches) && len(nodes) == len(c.devices) + rangeindex + 1 && cap(nodes) >= len(c.devices) + len(c.switches) && fresh(nodes)
//@   loop 1: invariant forall i in 0..len(c.devices) :: hastype(nodes[i], "*deviceNode") && as(nodes[i], "*deviceNode") == c.devices[i]
//@   loop 1: invariant forall i in 0..rangeindex + 1 :: hastype(nodes[len(c.devices) + i], "*switchNode") && as(nodes[len(c.devices) + i], "*switchNode") == c.switches[i]

// ---- C30(d): floydWarshall — UNBOUNDED safety and algebraic facts only; "shortest" and "loop-free" are NOT decided ----
// (a full proof needs a path-witness invariant over the in-place k-loop; out of budget).  What is proved for every n:
// no index out of range on a square table, no uint32 overflow (all sums stay <= 2*INF with INF = 2n, stated through the
// positivity postcondition which is false under wrap-around), distances only decrease and stay <= INF, the diagonal stays
// (0, same hop), off-diagonal distances stay >= 1, every entry with a finite distance has a non-nil next hop, and only
// the distance/nextHop fields of the cells are written.

//@ pred c30Square(table) = forall i in 0..len(table) :: len(table[i]) == len(table)
//@ pred c30RowsDistinct(table) = forall a in 0..len(table) :: forall b in 0..len(table) :: a != b ==> ref(table[a]) != ref(table[b])
//@ pred c30DistLe(table, B) = forall i in 0..len(table) :: forall j in 0..len(table) :: 0 <= table[i][j].distance && table[i][j].distance <= B
//@ pred c30DiagZero(table) = forall i in 0..len(table) :: table[i][i].distance == 0
//@ pred c30OffDiagPos(table) = forall i in 0..len(table) :: forall j in 0..len(table) :: i != j ==> table[i][j].distance >= 1
//@ pred c30HopWF(table) = forall i in 0..len(table) :: forall j in 0..len(table) :: table[i][j].distance < 2 * len(table) ==> table[i][j].nextHop != nil
// every stored next hop of row i is a link that leaves node i (row i's source): the hop can actually be taken from i
//@ pred c30HopLocal(table) = forall i in 0..len(table) :: forall j in 0..len(table) :: table[i][j].nextHop != nil ==> table[i][j].nextHop.LocalNode == table[i][j].src
//@ pred c30RowSrc(table) = forall i in 0..len(table) :: forall j in 0..len(table) :: table[i][j].src == table[i][i].src

//@ fn (FloydWarshallRouter).floydWarshall
//@   property C30
//@   bounded NOT a shortest-path proof: safety + monotonicity + well-formedness for every n (4n <= MaxUint32); optimality/loop-freedom undecided
//@   requires c30Square(table) && c30RowsDistinct(table) && 4 * len(table) <= 4294967295
//@   requires c30DistLe(table, 2 * len(table)) && c30DiagZero(table) && c30OffDiagPos(table) && c30HopWF(table) && c30HopLocal(table) && c30RowSrc(table)
//@   label C30.fw.hoplocal
//@   ensures c30HopLocal(table)
//@   label C30.fw.bound
//@   ensures c30DistLe(table, 2 * len(table))
//@   label C30.fw.mono
//@   ensures forall i in 0..len(table) :: forall j in 0..len(table) :: table[i][j].distance <= old(table[i][j].distance)
//@   label C30.fw.diag
//@   ensures forall i in 0..len(table) :: table[i][i].distance == 0 && table[i][i].nextHop == old(table[i][i].nextHop)
//@   label C30.fw.offdiag
//@   ensures c30OffDiagPos(table)
//@   label C30.fw.hopwf
//@   ensures c30HopWF(table)
//@   assigns key("E|noc/networking/networkconnector.routeInfo|.distance"), key("E|noc/networking/networkconnector.routeInfo|.nextHop")
//@   loop 0: invariant -1 <= rangeindex && rangeindex < len(table) && c30Square(table) && c30RowsDistinct(table) && c30DistLe(table, 2 * len(table)) && c30DiagZero(table) && c30OffDiagPos(table) && c30HopWF(table) && c30HopLocal(table)
//@   loop 0: invariant forall i in 0..len(table) :: forall j in 0..len(table) :: table[i][j].distance <= old(table[i][j].distance)
//@   loop 0: invariant forall i in 0..len(table) :: table[i][i].nextHop == old(table[i][i].nextHop)
//@   loop 1: invariant -1 <= rangeindex && rangeindex < len(table) && c30Square(table) && c30RowsDistinct(table) && c30DistLe(table, 2 * len(table)) && c30DiagZero(table) && c30OffDiagPos(table) && c30HopWF(table) && c30HopLocal(table)
//@   loop 1: invariant forall i in 0..len(table) :: forall j in 0..len(table) :: table[i][j].distance <= old(table[i][j].distance)
//@   loop 1: invariant forall i in 0..len(table) :: table[i][i].nextHop == old(table[i][i].nextHop)
//@   loop 2: invariant -1 <= rangeindex && rangeindex < len(table) && c30Square(table) && c30RowsDistinct(table) && c30DistLe(table, 2 * len(table)) && c30DiagZero(table) && c30OffDiagPos(table) && c30HopWF(table) && c30HopLocal(table)
//@   loop 2: invariant forall i in 0..len(table) :: forall j in 0..len(table) :: table[i][j].distance <= old(table[i][j].distance)
//@   loop 2: invariant forall i in 0..len(table) :: table[i][i].nextHop == old(table[i][i].nextHop)
// ground instance at the cell written last
//@   label C30.fw.cell.hoplocal
//@   loop 2: invariant rangeindex >= 0 ==> (table[i][rangeindex].nextHop != nil ==> table[i][rangeindex].nextHop.LocalNode == table[i][i].src)

// findRemote: a copy of the FIRST link of l that leads to node t, or nil when no link does.
//@ fn findRemote
//@   property C30
//@   label C30.findremote.nil
//@   ensures (result == nil) <==> (forall k in 0..len(l) :: l[k].RemoteNode != t)
//@   label C30.findremote.hit
//@   ensures result != nil ==> fresh(result) && result.RemoteNode == t
//@   label C30.findremote.first
//@   ensures forall k in 0..len(l) :: (l[k].RemoteNode == t && (forall m in 0..k :: l[m].RemoteNode != t)) ==> result != nil && result.LocalPort == l[k].LocalPort && result.LocalNode == l[k].LocalNode && result.RemotePort == l[k].RemotePort && result.Link == l[k].Link
//@   assigns nothing
//@   loop 0: invariant -1 <= rangeindex && rangeindex < len(l)
//@   loop 0: invariant forall k in 0..rangeindex + 1 :: l[k].RemoteNode != t
