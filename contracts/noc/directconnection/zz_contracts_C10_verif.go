//go:build verif

// Contracts for package directconnection, property C10 (comment-only; read by /verif/engine, never compiled into a build).
// C10: direct connections deliver exactly once, intact, in order; backpressure delays, never drops or duplicates.
package directconnection

// ---- ghost view of the ports (messaging.Port interface values; only trusted interface contracts see them) ----
// All maps are keyed by the port's identity ifaceval(port).
// Shared with /verif/contracts/mem/rob/zz_contracts_C21_verif.go (same names, same meaning; its Port contracts are reused):
//   sendCnt[p]            number of Send calls on p so far = number of messages ever put into p's OUTGOING buffer
//   sentTyp/sentVal[p][n] (dynamic type, value) of the n-th message put into p's outgoing buffer
//   canSend               p's outgoing buffer has room;  inTyp/inVal[p]: head of p's incoming buffer (type 0 = none)
//@ ghost var canSend set
//@ ghost var sendCnt map
//@ ghost var sentTyp map2
//@ ghost var sentVal map2
//@ ghost var inTyp map
//@ ghost var inVal map
//@ ghost var retrCnt map
// Added for C10:
//   outRetr[p]            number of messages retrieved from p's outgoing buffer so far: the outgoing QUEUE of p is the
//                         sequence sent(p, outRetr[p]) .. sent(p, sendCnt[p]-1), head first
//   canDlv                p's incoming buffer has room
//   dlvN                  number of Deliver calls so far (on any port): the global delivery log has entries 0..dlvN-1
//   dlvTyp/dlvVal[n]      (dynamic type, value) of the message handed over by the n-th Deliver call
//   dlvTo[n]              identity of the port that received it
//   connOf[p]             identity of the connection p is plugged into (0 = none)
//   availCnt[p]           number of NotifyAvailable calls on p so far
//   tickNowCnt[c]         number of TickNow calls on tick scheduler c so far
//@ ghost var outRetr map
//@ ghost var canDlv set
//@ ghost var dlvN int
//@ ghost var dlvTyp map
//@ ghost var dlvVal map
//@ ghost var dlvTo map
//@ ghost var connOf map
//@ ghost var availCnt map
//@ ghost var tickNowCnt map

// destination name carried by a message: the uninterpreted attribute messaging.msgDst declared (with the trusted
// contract `iface messaging.Msg.Meta()`: result.Dst == msgDst(self), panics on a nil message) in
// /verif/contracts/messaging/zz_contracts_C11_verif.go -- reused, not redeclared.
//@ func dstOf(x) = messaging.msgDst(x)

//@ func pid(port) = ifaceval(port)
//@ func sentMsg(p, n) = mkiface(sentTyp[p][n], sentVal[p][n])
//@ func oldSentMsg(p, n) = mkiface(old(sentTyp)[p][n], old(sentVal)[p][n])
//@ func numOut(p) = sendCnt[p] - outRetr[p]

// ---- trusted: messaging.Msg / messaging.Port are interfaces (any implementation); sequential reading of one tick ----
// PeekOutgoing / NumOutgoing: pure views of the outgoing queue.
//@ iface messaging.Port.PeekOutgoing()
//@   trusted
//@   ensures 0 <= outRetr[ifaceval(self)] && outRetr[ifaceval(self)] <= sendCnt[ifaceval(self)]
//@   ensures typeid(result) == 0 <==> outRetr[ifaceval(self)] == sendCnt[ifaceval(self)]
//@   ensures typeid(result) == 0 ==> ifaceval(result) == 0
//@   ensures typeid(result) != 0 ==> typeid(result) == sentTyp[ifaceval(self)][outRetr[ifaceval(self)]] && ifaceval(result) == sentVal[ifaceval(self)][outRetr[ifaceval(self)]]
//@   assigns nothing
//@ iface messaging.Port.NumOutgoing()
//@   trusted
//@   ensures result == sendCnt[ifaceval(self)] - outRetr[ifaceval(self)] && result >= 0
//@   assigns nothing
// RetrieveOutgoing: pops the head of the outgoing queue (nil and no change when empty); the sender may get room again.
//@ iface messaging.Port.RetrieveOutgoing()
//@   trusted
//@   ensures 0 <= old(outRetr)[ifaceval(self)] && old(outRetr)[ifaceval(self)] <= sendCnt[ifaceval(self)]
//@   ensures typeid(result) == 0 <==> old(outRetr)[ifaceval(self)] == sendCnt[ifaceval(self)]
//@   ensures typeid(result) == 0 ==> ifaceval(result) == 0
//@   ensures typeid(result) != 0 ==> typeid(result) == sentTyp[ifaceval(self)][old(outRetr)[ifaceval(self)]] && ifaceval(result) == sentVal[ifaceval(self)][old(outRetr)[ifaceval(self)]]
//@   ensures outRetr == upd(old(outRetr), ifaceval(self), old(outRetr)[ifaceval(self)] + (typeid(result) == 0 ? 0 : 1))
//@   ensures forall p int :: p != ifaceval(self) ==> (canSend[p] <==> old(canSend)[p])
//@   assigns outRetr, canSend
// CanDeliver / Deliver: the incoming side. Deliver into a full buffer panics; otherwise the message is appended to the
// delivery log; only the receiving port's room and incoming head can change.
//@ iface messaging.Port.CanDeliver()
//@   trusted
//@   ensures result <==> canDlv[ifaceval(self)]
//@   assigns nothing
//@ iface messaging.Port.Deliver(msg)
//@   trusted
//@   panics !canDlv[ifaceval(self)]
//@   ensures dlvN == old(dlvN) + 1
//@   ensures dlvTyp == upd(old(dlvTyp), old(dlvN), typeid(msg)) && dlvVal == upd(old(dlvVal), old(dlvN), ifaceval(msg)) && dlvTo == upd(old(dlvTo), old(dlvN), ifaceval(self))
//@   ensures forall p int :: p != ifaceval(self) ==> (canDlv[p] <==> old(canDlv)[p]) && inTyp[p] == old(inTyp)[p] && inVal[p] == old(inVal)[p]
//@   ensures old(inTyp)[ifaceval(self)] != 0 ==> inTyp[ifaceval(self)] == old(inTyp)[ifaceval(self)] && inVal[ifaceval(self)] == old(inVal)[ifaceval(self)]
//@   ensures old(inTyp)[ifaceval(self)] == 0 ==> inTyp[ifaceval(self)] == typeid(msg) && inVal[ifaceval(self)] == ifaceval(msg)
//@   assigns canDlv, dlvN, dlvTyp, dlvVal, dlvTo, inTyp, inVal

// ---- the port table ----
// The index map points into the slice, and two names never share a slot (names distinct).
//@ pred tableWF(p) = p.portMap != nil && (forall nm int :: (nm in p.portMap) ==> 0 <= p.portMap[nm] && p.portMap[nm] < len(p.ports)) && (forall n1 int, n2 int :: (n1 in p.portMap) && (n2 in p.portMap) && n1 != n2 ==> p.portMap[n1] != p.portMap[n2])
// the port registered under name d
//@ func byName(p, d) = p.ports[p.portMap[d]]

//@ fn (*ports).getPortIndex
//@   property C10
//@   panics index < 0 || index >= len(p.ports)
//@   label C10.getindex
//@   ensures result == p.ports[index]
//@   assigns nothing
//@ fn (*ports).len
//@   property C10
//@   label C10.len
//@   ensures result == len(p.ports)
//@   assigns nothing
//@ fn (*ports).list
//@   property C10
//@   label C10.list
//@   ensures result == p.ports
//@   assigns nothing
//@ fn (*ports).getPortByName
//@   property C10
//@   requires tableWF(p)
//@   panics !(name in p.portMap)
//@   label C10.byname
//@   ensures result == p.ports[p.portMap[name]]
//@   assigns nothing

// ---- forwardMany(port): forwards a prefix of port's outgoing queue, stops at the first destination that cannot accept ----
// k = number of messages forwarded by this call
//@ func fwdK(port) = outRetr[ifaceval(port)] - old(outRetr)[ifaceval(port)]
// every message queued in port p is addressed to a name in the table
//@ pred routable(m, p) = forall j int :: outRetr[p] <= j && j < sendCnt[p] ==> (dstOf(sentMsg(p, j)) in m.ports.portMap)
// log entry n is queue entry j of port p (same interface value), handed to the port registered under its Dst
//@ pred deliveredAs(m, n, p, j) = dlvTyp[n] == old(sentTyp)[p][j] && dlvVal[n] == old(sentVal)[p][j] && dlvTo[n] == ifaceval(byName(m.ports, dstOf(oldSentMsg(p, j))))
//@ pred logPrefixKept() = forall n int :: n < old(dlvN) ==> dlvTyp[n] == old(dlvTyp)[n] && dlvVal[n] == old(dlvVal)[n] && dlvTo[n] == old(dlvTo)[n]
//@ pred onlyRetrieved(port) = outRetr == upd(old(outRetr), ifaceval(port), outRetr[ifaceval(port)])

//@ fn (*middleware).forwardMany
//@   property C10
//@   requires tableWF(m.ports)
//@   requires routable(m, ifaceval(port))
//@   label C10.fwd.k
//@   ensures 0 <= fwdK(port) && fwdK(port) <= old(numOut(ifaceval(port)))
//@   label C10.fwd.retrieved
//@   ensures onlyRetrieved(port)
//@   label C10.fwd.count
//@   ensures dlvN == old(dlvN) + fwdK(port)
//@   label C10.fwd.delivered
//@   ensures forall i in 0..fwdK(port) :: deliveredAs(m, old(dlvN) + i, ifaceval(port), old(outRetr)[ifaceval(port)] + i)
//@   label C10.fwd.logkept
//@   ensures logPrefixKept()
//@   label C10.fwd.backpressure
//@   ensures fwdK(port) < old(numOut(ifaceval(port))) ==> !canDlv[ifaceval(byName(m.ports, dstOf(sentMsg(ifaceval(port), outRetr[ifaceval(port)]))))]
//@   label C10.fwd.progress
//@   ensures result <==> fwdK(port) > 0
//@   label C10.fwd.nooverfill
//@   ensures forall q int :: !old(canDlv)[q] ==> !canDlv[q]
//@   label C10.fwd.othersenders
//@   ensures forall p int :: p != ifaceval(port) ==> (canSend[p] <==> old(canSend)[p])
//@   label C10.fwd.table
//@   ensures tableWF(m.ports)
//@   assigns outRetr, canSend, canDlv, dlvN, dlvTyp, dlvVal, dlvTo, inTyp, inVal
//@   loop 0: invariant tableWF(m.ports) && routable(m, ifaceval(port))
//@   loop 0: invariant 0 <= fwdK(port) && onlyRetrieved(port)
//@   loop 0: invariant dlvN == old(dlvN) + fwdK(port)
//@   loop 0: invariant forall i in 0..fwdK(port) :: deliveredAs(m, old(dlvN) + i, ifaceval(port), old(outRetr)[ifaceval(port)] + i)
//@   loop 0: invariant logPrefixKept()
//@   loop 0: invariant madeProgress <==> fwdK(port) > 0
//@   loop 0: invariant forall q int :: !old(canDlv)[q] ==> !canDlv[q]
//@   loop 0: invariant forall p int :: p != ifaceval(port) ==> (canSend[p] <==> old(canSend)[p])

// ---- Tick: one forwardMany per loop step on a plugged port; the cursor advances by one modulo the number of ports ----
// ENGINE LIMIT: the loop is `for i := range numPorts` (range over an integer); its hidden counter is the SSA cell
// `rangeint.iter`, which the spec language cannot name (and `i` is a per-iteration cell that does not exist at the loop
// head), so no invariant can bound the counter: WHICH port a step visits, that every port is visited exactly once from the
// cursor position, and that getPortIndex stays in range are NOT decided here (hence `panics any` and the `bounded` marker).
// What is decided holds for whatever ports the steps visit: every delivery made by the tick is an unmodified message taken
// from the outgoing queue of a plugged port, handed to the port registered under its Dst, in queue order per source, each
// retrieved message delivered (no drop, no duplicate), nothing delivered into a port that could not accept.
//@ func rr(i, s, n) = i + s < n ? i + s : i + s - n
//@ pred cursorOK(m) = 0 <= m.comp.State.NextPortID && (m.comp.State.NextPortID < len(m.ports.ports) || m.comp.State.NextPortID == 0)
//@ pred allRoutable(m) = forall i in 0..len(m.ports.ports) :: routable(m, ifaceval(m.ports.ports[i]))
// log entry n is queue entry idx[n] of port src[n], retrieved during this call
//@ pred tickDelivered(m, src, idx) = forall n int :: old(dlvN) <= n && n < dlvN ==> dlvTyp[n] == sentTyp[src[n]][idx[n]] && dlvVal[n] == sentVal[src[n]][idx[n]] && dlvTo[n] == ifaceval(byName(m.ports, dstOf(sentMsg(src[n], idx[n])))) && old(outRetr)[src[n]] <= idx[n] && idx[n] < outRetr[src[n]]
//@ pred tickInOrder(src, idx) = forall n1 int, n2 int :: old(dlvN) <= n1 && n1 < n2 && n2 < dlvN && src[n1] == src[n2] ==> idx[n1] < idx[n2]
//@ pred tickNoDrop(src, idx, lg) = forall p int, j int :: old(outRetr)[p] <= j && j < outRetr[p] ==> old(dlvN) <= lg[p][j] && lg[p][j] < dlvN && src[lg[p][j]] == p && idx[lg[p][j]] == j
//@ pred tickOnlyPlugged(m, slot) = forall p int :: outRetr[p] != old(outRetr)[p] ==> 0 <= slot[p] && slot[p] < len(m.ports.ports) && ifaceval(m.ports.ports[slot[p]]) == p
//@ pred retrGrows() = forall p int :: old(outRetr)[p] <= outRetr[p]
//@ pred fullStaysFull() = forall q int :: !old(canDlv)[q] ==> !canDlv[q]

//@ fn (*middleware).Tick
//@   property C10
//@   bounded visiting order (each plugged port exactly once, starting at NextPortID) not decided: the engine cannot name the counter of a range-over-int loop
//@   requires m.comp != nil && tableWF(m.ports) && cursorOK(m)
//@   requires allRoutable(m)
//@   panics any
//@   witness src map = gsrc
//@   witness idx map = gidx
//@   witness lg map2 = glog
//@   witness slot map = gslot
//@   label C10.tick.cursor
//@   ensures m.comp.State.NextPortID == rr(1, old(m.comp.State.NextPortID), len(m.ports.ports)) && cursorOK(m)
//@   label C10.tick.delivered
//@   ensures tickDelivered(m, src, idx)
//@   label C10.tick.inorder
//@   ensures tickInOrder(src, idx)
//@   label C10.tick.nodrop
//@   ensures tickNoDrop(src, idx, lg)
//@   label C10.tick.onlyplugged
//@   ensures tickOnlyPlugged(m, slot) && retrGrows()
//@   label C10.tick.logkept
//@   ensures logPrefixKept() && dlvN >= old(dlvN)
//@   label C10.tick.nooverfill
//@   ensures fullStaysFull()
//@   label C10.tick.table
//@   ensures tableWF(m.ports) && unchanged(m.ports.ports) && unchanged(m.ports.portMap)
//@   assigns m.comp.State.NextPortID, outRetr, canSend, canDlv, dlvN, dlvTyp, dlvVal, dlvTo, inTyp, inVal
//@   loop 0: ghost gsrc = mapof(j, 0)
//@   loop 0: backedge gsrc = mapof(j, j >= athead(dlvN) ? ifaceval(port) : gsrc[j])
//@   loop 0: ghost gidx = mapof(j, 0)
//@   loop 0: backedge gidx = mapof(j, j >= athead(dlvN) ? athead(outRetr)[ifaceval(port)] + j - athead(dlvN) : gidx[j])
//@   loop 0: ghost glog = sentVal
//@   loop 0: backedge glog = upd(glog, ifaceval(port), mapof(j, j >= athead(outRetr)[ifaceval(port)] ? athead(dlvN) + j - athead(outRetr)[ifaceval(port)] : glog[ifaceval(port)][j]))
//@   loop 0: ghost gslot = mapof(j, 0)
//@   loop 0: backedge gslot = upd(gslot, ifaceval(port), portID)
//@   loop 0: invariant numPorts == len(m.ports.ports) && numPorts > 0 && state.NextPortID == old(m.comp.State.NextPortID)
//@   loop 0: invariant tableWF(m.ports) && allRoutable(m) && dlvN >= old(dlvN)
//@   loop 0: invariant madeProgress <==> dlvN > old(dlvN)
//@   loop 0: invariant retrGrows() && logPrefixKept() && fullStaysFull()
//@   loop 0: invariant tickDelivered(m, gsrc, gidx)
//@   loop 0: invariant tickInOrder(gsrc, gidx)
//@   loop 0: invariant tickNoDrop(gsrc, gidx, glog)
//@   loop 0: invariant tickOnlyPlugged(m, gslot)
