//go:build verif

// Contracts for package directconnection, property C10 (comment-only; read by /verif/engine, never compiled into a build).
// C10: direct connections deliver exactly once, intact, in order; backpressure delays, never drops or duplicates.
//
// Decided here (sequential reading of one tick; ports/messages are interface values seen through trusted contracts):
//   forwardMany(port)  exactly the first k queued messages of `port` are retrieved, each handed -- same interface value, in
//                      queue order -- to the port registered under its Dst; the log grows by exactly those k entries; no other
//                      port's queue, room or incoming side changes; k < queue length only because the destination of message
//                      k cannot accept; no delivery into a port that cannot accept; result <==> k > 0.
//   Tick               cursor' = (cursor + 1) mod n; result <==> something was delivered; every delivery of the tick is a
//                      retrieved, unmodified message of a plugged port, at the port registered under its Dst, in queue order
//                      per source, every retrieved message delivered (no drop / duplicate).  NOT decided: which port each step
//                      visits (exactly once from the cursor) -- see ENGINE LIMIT at Tick; its arithmetic half is lemma rr*.
//   table              addPort / PlugIn append the port, keep every registered name, point the (single) new or changed entry at
//                      the new port, keep the table well formed; getPortByName panics iff the name is unknown.
//   NotifySend / NotifyAvailable   make the connection tick (through the verified TickNow contract of package modeling);
//                      NotifyAvailable tells every other plugged port exactly once.
// Preconditions the code does not check (reproduced on the real code, see the C10 report): at least one plugged port when
// ticking (Tick divides by the number of ports), distinct port names (a second port with the same name silently takes over
// the name), every queued message addressed to a plugged name (getPortByName panics otherwise).
package directconnection

// ---- ghost view of the ports (messaging.Port interface values; only trusted interface contracts see them) ----
// All maps are keyed by the port's identity ifaceval(port).
// Shared with /verif/contracts/mem/rob/zz_contracts_C21_verif.go (same names, same meaning; its Port contracts are reused):
//   sendCnt[p]            number of Send calls on p so far = number of messages ever put into p's OUTGOING buffer
//   sentTyp/sentVal[p][n] (dynamic type, value) of the n-th message put into p's outgoing buffer
//   canSend               p's outgoing buffer has room;  inTyp/inVal[p]: head of p's incoming buffer (type 0 = none)
//@ ghost var canSend set
//@ ghost var sendCnt map
//@ ghost var sentTyp map2
//@ ghost var sentVal map2
//@ ghost var inTyp map
//@ ghost var inVal map
//@ ghost var retrCnt map
// Added for C10:
//   outRetr[p]            number of messages retrieved from p's outgoing buffer so far: the outgoing QUEUE of p is the
//                         sequence sent(p, outRetr[p]) .. sent(p, sendCnt[p]-1), head first
//   canDlv                p's incoming buffer has room
//   dlvN                  number of Deliver calls so far (on any port): the global delivery log has entries 0..dlvN-1
//   dlvTyp/dlvVal[n]      (dynamic type, value) of the message handed over by the n-th Deliver call
//   dlvTo[n]              identity of the port that received it
//   connOf[p]             identity of the connection p is plugged into (0 = none)
//   availCnt[p]           number of NotifyAvailable calls on p so far
//   tickNowCnt[c]         number of TickNow calls on tick scheduler c so far
//@ ghost var outRetr map
//@ ghost var canDlv set
//@ ghost var dlvN int
//@ ghost var dlvTyp map
//@ ghost var dlvVal map
//@ ghost var dlvTo map
//@ ghost var connOf map
//@ ghost var availCnt map
//@ ghost var tickNowCnt map

// destination name carried by a message: the uninterpreted attribute messaging.msgDst declared (with the trusted
// contract `iface messaging.Msg.Meta()`: result.Dst == msgDst(self), panics on a nil message) in
// /verif/contracts/messaging/zz_contracts_C11_verif.go -- reused, not redeclared.
//@ func dstOf(x) = messaging.msgDst(x)

//@ func pid(port) = ifaceval(port)
//@ func sentMsg(p, n) = mkiface(sentTyp[p][n], sentVal[p][n])
//@ func oldSentMsg(p, n) = mkiface(old(sentTyp)[p][n], old(sentVal)[p][n])
//@ func numOut(p) = sendCnt[p] - outRetr[p]

// ---- trusted: messaging.Msg / messaging.Port are interfaces (any implementation); sequential reading of one tick ----
// PeekOutgoing / NumOutgoing: pure views of the outgoing queue.
//@ iface messaging.Port.PeekOutgoing()
//@   trusted
//@   ensures 0 <= outRetr[ifaceval(self)] && outRetr[ifaceval(self)] <= sendCnt[ifaceval(self)]
//@   ensures typeid(result) == 0 <==> outRetr[ifaceval(self)] == sendCnt[ifaceval(self)]
//@   ensures typeid(result) == 0 ==> ifaceval(result) == 0
//@   ensures typeid(result) != 0 ==> typeid(result) == sentTyp[ifaceval(self)][outRetr[ifaceval(self)]] && ifaceval(result) == sentVal[ifaceval(self)][outRetr[ifaceval(self)]]
//@   assigns nothing
//@ iface messaging.Port.NumOutgoing()
//@   trusted
//@   ensures result == sendCnt[ifaceval(self)] - outRetr[ifaceval(self)] && result >= 0
//@   assigns nothing
// RetrieveOutgoing: pops the head of the outgoing queue (nil and no change when empty); the sender may get room again.
//@ iface messaging.Port.RetrieveOutgoing()
//@   trusted
//@   ensures 0 <= old(outRetr)[ifaceval(self)] && old(outRetr)[ifaceval(self)] <= sendCnt[ifaceval(self)]
//@   ensures typeid(result) == 0 <==> old(outRetr)[ifaceval(self)] == sendCnt[ifaceval(self)]
//@   ensures typeid(result) == 0 ==> ifaceval(result) == 0
//@   ensures typeid(result) != 0 ==> typeid(result) == sentTyp[ifaceval(self)][old(outRetr)[ifaceval(self)]] && ifaceval(result) == sentVal[ifaceval(self)][old(outRetr)[ifaceval(self)]]
//@   ensures outRetr == upd(old(outRetr), ifaceval(self), old(outRetr)[ifaceval(self)] + (typeid(result) == 0 ? 0 : 1))
//@   ensures forall p int :: p != ifaceval(self) ==> (canSend[p] <==> old(canSend)[p])
//@   assigns outRetr, canSend
// CanDeliver / Deliver: the incoming side. Deliver into a full buffer panics; otherwise the message is appended to the
// delivery log; only the receiving port's room and incoming head can change.
//@ iface messaging.Port.CanDeliver()
//@   trusted
//@   ensures result <==> canDlv[ifaceval(self)]
//@   assigns nothing
//@ iface messaging.Port.Deliver(msg)
//@   trusted
//@   panics !canDlv[ifaceval(self)]
//@   ensures dlvN == old(dlvN) + 1
//@   ensures dlvTyp == upd(old(dlvTyp), old(dlvN), typeid(msg)) && dlvVal == upd(old(dlvVal), old(dlvN), ifaceval(msg)) && dlvTo == upd(old(dlvTo), old(dlvN), ifaceval(self))
//@   ensures forall p int :: p != ifaceval(self) ==> (canDlv[p] <==> old(canDlv)[p]) && inTyp[p] == old(inTyp)[p] && inVal[p] == old(inVal)[p]
//@   ensures old(inTyp)[ifaceval(self)] != 0 ==> inTyp[ifaceval(self)] == old(inTyp)[ifaceval(self)] && inVal[ifaceval(self)] == old(inVal)[ifaceval(self)]
//@   ensures old(inTyp)[ifaceval(self)] == 0 ==> inTyp[ifaceval(self)] == typeid(msg) && inVal[ifaceval(self)] == ifaceval(msg)
//@   assigns canDlv, dlvN, dlvTyp, dlvVal, dlvTo, inTyp, inVal

// SetConnection: a port accepts one connection, once (a second SetConnection panics).
//@ iface messaging.Port.SetConnection(conn)
//@   trusted
//@   panics connOf[ifaceval(self)] != 0
//@   ensures connOf == upd(old(connOf), ifaceval(self), ifaceval(conn))
//@   assigns connOf
// NotifyAvailable: forwards the wake-up to the owner component (outside the connection): only counted here.
//@ iface messaging.Port.NotifyAvailable()
//@   trusted
//@   ensures availCnt == upd(old(availCnt), ifaceval(self), old(availCnt)[ifaceval(self)] + 1)
//@   assigns availCnt
// modeling.MiddlewareHolder.Middlewares returns a fresh copy of the middleware list (trusted: function of package modeling).
//@ ext modeling.(*MiddlewareHolder).Middlewares(holder)
//@   trusted
//@   ensures len(result) == len(holder.middlewares) && fresh(result) && (forall i in 0..len(result) :: result[i] == holder.middlewares[i])
//@   assigns nothing

// ---- the port table ----
// The index map points into the slice, and two names never share a slot (names distinct).
//@ pred tableWF(p) = p.portMap != nil && (forall nm int :: (nm in p.portMap) ==> 0 <= p.portMap[nm] && p.portMap[nm] < len(p.ports)) && (forall n1 int, n2 int :: (n1 in p.portMap) && (n2 in p.portMap) && n1 != n2 ==> p.portMap[n1] != p.portMap[n2])
// the port registered under name d
//@ func byName(p, d) = p.ports[p.portMap[d]]

//@ fn (*ports).getPortIndex
//@   property C10
//@   panics index < 0 || index >= len(p.ports)
//@   witness widx int = index
//@   label C10.getindex
//@   ensures result == p.ports[index] && widx == index
//@   assigns nothing
//@ fn (*ports).len
//@   property C10
//@   label C10.len
//@   ensures result == len(p.ports)
//@   assigns nothing
//@ fn (*ports).list
//@   property C10
//@   label C10.list
//@   ensures result == p.ports
//@   assigns nothing
//@ fn (*ports).getPortByName
//@   property C10
//@   requires tableWF(p)
//@   panics !(name in p.portMap)
//@   label C10.byname
//@   ensures result == p.ports[p.portMap[name]]
//@   assigns nothing

// addPort: appends the port and registers it under the name its AsRemote() returns.
// NOT EXPRESSIBLE with the reused contract `iface messaging.Port.AsRemote()` of mem/rob/zz_contracts_C21_verif.go (no
// postcondition: every call returns an unconstrained name): "portMap[name of port] == its index" (DESIGN: portsWF). It would
// need `ensures result == portName(self)` for an uninterpreted portName there. What follows is the part that does not name
// the key: no name is lost, every new or changed entry designates the appended port, at most one entry is new or changed.
//@ pred entryKept(p, nm) = old(nm in p.portMap) && (nm in p.portMap) && p.portMap[nm] == old(p.portMap[nm])
//@ pred tableAppended(p, port) = len(p.ports) == old(len(p.ports)) + 1 && p.ports[old(len(p.ports))] == port && (forall i in 0..old(len(p.ports)) :: p.ports[i] == old(p.ports[i]))
//@ pred tableRegistered(p) = (forall nm int :: old(nm in p.portMap) ==> (nm in p.portMap)) && (forall nm int :: (nm in p.portMap) && !entryKept(p, nm) ==> p.portMap[nm] == old(len(p.ports))) && (forall n1 int, n2 int :: (n1 in p.portMap) && (n2 in p.portMap) && !entryKept(p, n1) && !entryKept(p, n2) ==> n1 == n2)
//@ fn (*ports).addPort
//@   property C10
//@   requires tableWF(p)
//@   label C10.add.slice
//@   ensures tableAppended(p, port)
//@   label C10.add.map
//@   ensures tableRegistered(p)
//@   label C10.add.wf
//@   ensures tableWF(p)
//@   assigns p.ports, elems(p.ports), elems(p.portMap)

// ---- the component: its first middleware is the forwarding middleware that owns the table ----
//@ pred compWF(c) = c.Component != nil && c.Component.TickingComponent != nil && len(c.Component.MiddlewareHolder.middlewares) > 0 && hastype(c.Component.MiddlewareHolder.middlewares[0], "*middleware") && as(c.Component.MiddlewareHolder.middlewares[0], "*middleware") != nil
//@ func mwOf(c) = as(c.Component.MiddlewareHolder.middlewares[0], "*middleware")
// the same three facts about the table of middleware m (a struct-valued argument would be evaluated before old() applies)
//@ pred mEntryKept(m, nm) = old(nm in m.ports.portMap) && (nm in m.ports.portMap) && m.ports.portMap[nm] == old(m.ports.portMap[nm])
//@ pred mTableAppended(m, port) = len(m.ports.ports) == old(len(m.ports.ports)) + 1 && m.ports.ports[old(len(m.ports.ports))] == port && (forall i in 0..old(len(m.ports.ports)) :: m.ports.ports[i] == old(m.ports.ports[i]))
//@ pred mTableRegistered(m) = (forall nm int :: old(nm in m.ports.portMap) ==> (nm in m.ports.portMap)) && (forall nm int :: (nm in m.ports.portMap) && !mEntryKept(m, nm) ==> m.ports.portMap[nm] == old(len(m.ports.ports))) && (forall n1 int, n2 int :: (n1 in m.ports.portMap) && (n2 in m.ports.portMap) && !mEntryKept(m, n1) && !mEntryKept(m, n2) ==> n1 == n2)
//@ fn (*Comp).mw
//@   property C10
//@   requires c.Component != nil
//@   panics !(len(c.Component.MiddlewareHolder.middlewares) > 0 && hastype(c.Component.MiddlewareHolder.middlewares[0], "*middleware"))
//@   label C10.mw
//@   ensures result == mwOf(c)
//@   assigns nothing

// PlugIn: the port joins the table (as addPort) and is told its connection; a port that already has a connection panics.
//@ fn (*Comp).PlugIn
//@   property C10
//@   requires compWF(c) && tableWF(mwOf(c).ports)
//@   panics connOf[ifaceval(port)] != 0
//@   label C10.plugin.slice
//@   ensures mTableAppended(mwOf(c), port)
//@   label C10.plugin.map
//@   ensures mTableRegistered(mwOf(c))
//@   label C10.plugin.wf
//@   ensures tableWF(mwOf(c).ports) && compWF(c)
//@   label C10.plugin.conn
//@   ensures connOf == upd(old(connOf), ifaceval(port), ref(c))
//@   assigns mwOf(c).ports.ports, elems(mwOf(c).ports.ports), elems(mwOf(c).ports.portMap), connOf

// ---- forwardMany(port): forwards a prefix of port's outgoing queue, stops at the first destination that cannot accept ----
// k = number of messages forwarded by this call
//@ func fwdK(port) = outRetr[ifaceval(port)] - old(outRetr)[ifaceval(port)]
// every message queued in port p is addressed to a name in the table
//@ pred routable(m, p) = forall j int :: outRetr[p] <= j && j < sendCnt[p] ==> (dstOf(sentMsg(p, j)) in m.ports.portMap)
// log entry n is queue entry j of port p (same interface value), handed to the port registered under its Dst
//@ pred deliveredAs(m, n, p, j) = dlvTyp[n] == old(sentTyp)[p][j] && dlvVal[n] == old(sentVal)[p][j] && dlvTo[n] == ifaceval(byName(m.ports, dstOf(oldSentMsg(p, j))))
//@ pred logPrefixKept() = forall n int :: n < old(dlvN) ==> dlvTyp[n] == old(dlvTyp)[n] && dlvVal[n] == old(dlvVal)[n] && dlvTo[n] == old(dlvTo)[n]
//@ pred onlyRetrieved(port) = outRetr == upd(old(outRetr), ifaceval(port), outRetr[ifaceval(port)])

//@ fn (*middleware).forwardMany
//@   property C10
//@   requires tableWF(m.ports)
//@   requires routable(m, ifaceval(port))
// names for the caller (Tick): the port served, and where its log segment / queue run start
//@   witness wport int = ifaceval(port)
//@   witness wdl0 int = old(dlvN)
//@   witness wr0 int = old(outRetr)[ifaceval(port)]
//@   witness last map = glast
//@   label C10.fwd.names
//@   ensures wport == ifaceval(port) && wdl0 == old(dlvN) && wr0 == old(outRetr)[ifaceval(port)]
//@   label C10.fwd.k
//@   ensures 0 <= fwdK(port) && fwdK(port) <= old(numOut(ifaceval(port)))
//@   label C10.fwd.retrieved
//@   ensures onlyRetrieved(port)
//@   label C10.fwd.count
//@   ensures dlvN == old(dlvN) + fwdK(port)
//@   label C10.fwd.delivered
//@   ensures forall n int :: old(dlvN) <= n && n < dlvN ==> deliveredAs(m, n, ifaceval(port), old(outRetr)[ifaceval(port)] + n - old(dlvN))
//@   label C10.fwd.logkept
//@   ensures logPrefixKept()
//@   label C10.fwd.backpressure
//@   ensures fwdK(port) < old(numOut(ifaceval(port))) ==> !canDlv[ifaceval(byName(m.ports, dstOf(sentMsg(ifaceval(port), outRetr[ifaceval(port)]))))]
//@   label C10.fwd.progress
//@   ensures result <==> fwdK(port) > 0
//@   label C10.fwd.nooverfill
//@   ensures forall q int :: !old(canDlv)[q] ==> !canDlv[q]
// the incoming side of a port changes only if one of this call's deliveries went to that port (never to another port)
//@   label C10.fwd.otherreceivers
//@   ensures forall q int :: (canDlv[q] != old(canDlv)[q] || inTyp[q] != old(inTyp)[q] || inVal[q] != old(inVal)[q]) ==> old(dlvN) <= last[q] && last[q] < dlvN && dlvTo[last[q]] == q
//@   label C10.fwd.othersenders
//@   ensures forall p int :: p != ifaceval(port) ==> (canSend[p] <==> old(canSend)[p])
//@   label C10.fwd.table
//@   ensures tableWF(m.ports)
//@   assigns outRetr, canSend, canDlv, dlvN, dlvTyp, dlvVal, dlvTo, inTyp, inVal
//@   loop 0: ghost glast = mapof(j, 0)
//@   loop 0: backedge glast = upd(glast, ifaceval(dstPort), dlvN - 1)
//@   loop 0: invariant forall q int :: (canDlv[q] != old(canDlv)[q] || inTyp[q] != old(inTyp)[q] || inVal[q] != old(inVal)[q]) ==> old(dlvN) <= glast[q] && glast[q] < dlvN && dlvTo[glast[q]] == q
//@   loop 0: invariant tableWF(m.ports) && routable(m, ifaceval(port))
//@   loop 0: invariant 0 <= fwdK(port) && onlyRetrieved(port)
//@   loop 0: invariant dlvN == old(dlvN) + fwdK(port)
//@   loop 0: invariant forall n int :: old(dlvN) <= n && n < dlvN ==> deliveredAs(m, n, ifaceval(port), old(outRetr)[ifaceval(port)] + n - old(dlvN))
//@   loop 0: invariant logPrefixKept()
//@   loop 0: invariant madeProgress <==> fwdK(port) > 0
//@   loop 0: invariant forall q int :: !old(canDlv)[q] ==> !canDlv[q]
//@   loop 0: invariant forall p int :: p != ifaceval(port) ==> (canSend[p] <==> old(canSend)[p])

// ---- Tick: one forwardMany per loop step on a plugged port; the cursor advances by one modulo the number of ports ----
// ENGINE LIMIT: the loop is `for i := range numPorts` (range over an integer); its hidden counter is the SSA cell
// `rangeint.iter`, which the spec language cannot name (and `i` is a per-iteration cell that does not exist at the loop
// head), so no invariant can bound the counter: WHICH port a step visits, that every port is visited exactly once from the
// cursor position, and that getPortIndex stays in range are NOT decided here (hence `panics any` and the `bounded` marker).
// What is decided holds for whatever ports the steps visit: every delivery made by the tick is an unmodified message taken
// from the outgoing queue of a plugged port, handed to the port registered under its Dst, in queue order per source, each
// retrieved message delivered (no drop, no duplicate), nothing delivered into a port that could not accept.
//@ func rr(i, s, n) = i + s < n ? i + s : i + s - n
// The arithmetic half of "every plugged port exactly once, starting at the cursor": IF the step counter i runs over 0..n-1
// (Go's range-over-int; the part the engine cannot track), the visited index (i + s) % n equals rr(i, s, n), stays in range,
// starts at s and never repeats.
//@ lemma rrIsMod(i, s, n, q, r)
//@   property C10
//@   requires 0 <= i && i < n && 0 <= s && s < n && i + s == q * n + r && 0 <= r && r < n
//@   label C10.lemma.rr.mod
//@   ensures r == rr(i, s, n)
//@ lemma rrPermutes(i, j, s, n)
//@   property C10
//@   requires 0 <= i && i < j && j < n && 0 <= s && s < n
//@   label C10.lemma.rr.perm
//@   ensures 0 <= rr(i, s, n) && rr(i, s, n) < n && rr(i, s, n) != rr(j, s, n) && rr(0, s, n) == s
//@ pred cursorOK(m) = 0 <= m.comp.State.NextPortID && (m.comp.State.NextPortID < len(m.ports.ports) || m.comp.State.NextPortID == 0)
//@ pred allRoutable(m) = forall i in 0..len(m.ports.ports) :: routable(m, ifaceval(m.ports.ports[i]))
// log entry n is queue entry idx[n] of port src[n], retrieved during this call
//@ pred tickDelivered(m, src, idx) = forall n int :: old(dlvN) <= n && n < dlvN ==> dlvTyp[n] == sentTyp[src[n]][idx[n]] && dlvVal[n] == sentVal[src[n]][idx[n]] && dlvTo[n] == ifaceval(byName(m.ports, dstOf(sentMsg(src[n], idx[n])))) && old(outRetr)[src[n]] <= idx[n] && idx[n] < outRetr[src[n]]
//@ pred tickInOrder(src, idx) = forall n1 int, n2 int :: old(dlvN) <= n1 && n1 < n2 && n2 < dlvN && src[n1] == src[n2] ==> idx[n1] < idx[n2]
// No drop, no gap: per source port the deliveries of the tick form a gapless run of its queue. prv[n] = log index of the
// previous delivery of the same source in this tick (below old(dlvN): none), lst[p] = log index of p's last delivery in this
// tick (below old(dlvN): none). The first delivery of a source carries its old queue head, consecutive deliveries carry
// consecutive queue positions, the last one carries the position just before its new head; a source without a delivery
// had nothing retrieved. (Map witnesses keyed by ONE integer: the engine has no map2 witnesses.)
//@ pred tickChain(src, idx, prv) = forall n int :: old(dlvN) <= n && n < dlvN ==> (prv[n] < old(dlvN) ==> idx[n] == old(outRetr)[src[n]]) && (prv[n] >= old(dlvN) ==> prv[n] < n && src[prv[n]] == src[n] && idx[n] == idx[prv[n]] + 1)
//@ pred tickLast(src, idx, lst) = forall p int :: (lst[p] < old(dlvN) ==> outRetr[p] == old(outRetr)[p]) && (lst[p] >= old(dlvN) ==> lst[p] < dlvN && src[lst[p]] == p && idx[lst[p]] == outRetr[p] - 1)
//@ pred tickOnlyPlugged(m, slot) = forall p int :: outRetr[p] != old(outRetr)[p] ==> 0 <= slot[p] && slot[p] < len(m.ports.ports) && ifaceval(m.ports.ports[slot[p]]) == p
// one loop step's update of the witness maps: the step served port P, its log segment starts at d0, its queue run at r0
//@ func nsrc(g, d0, P) = mapof(j, j >= d0 ? P : g[j])
//@ func nidx(g, d0, r0) = mapof(j, j >= d0 ? r0 + j - d0 : g[j])
//@ func nprv(g, d0, lastP) = mapof(j, j >= d0 ? (j == d0 ? lastP : j - 1) : g[j])
//@ func nlst(g, P, d0, d1) = upd(g, P, d1 > d0 ? d1 - 1 : g[P])
//@ pred retrGrows() = forall p int :: old(outRetr)[p] <= outRetr[p]
//@ pred fullStaysFull() = forall q int :: !old(canDlv)[q] ==> !canDlv[q]

//@ fn (*middleware).Tick
//@   property C10
//@   bounded visiting order (each plugged port exactly once, starting at NextPortID) not decided: the engine cannot name the counter of a range-over-int loop
//@   requires m.comp != nil && tableWF(m.ports) && cursorOK(m)
//@   requires allRoutable(m)
//@   panics any
// the loop leaves through the bottom of its last step (rotated range loop), where the ghost loop variables still have
// their loop-head values: the witnesses complete that last step from the names published by its two calls
//@   witness src map = nsrc(gsrc, forwardMany_wdl0, forwardMany_wport)
//@   witness idx map = nidx(gidx, forwardMany_wdl0, forwardMany_wr0)
//@   witness prv map = nprv(gprv, forwardMany_wdl0, glst[forwardMany_wport])
//@   witness lst map = nlst(glst, forwardMany_wport, forwardMany_wdl0, dlvN)
//@   witness slot map = upd(gslot, forwardMany_wport, getPortIndex_widx)
//@   label C10.tick.cursor
//@   ensures m.comp.State.NextPortID == rr(1, old(m.comp.State.NextPortID), len(m.ports.ports)) && cursorOK(m)
//@   label C10.tick.progress
//@   ensures result <==> dlvN > old(dlvN)
//@   label C10.tick.delivered
//@   ensures tickDelivered(m, src, idx)
//@   label C10.tick.inorder
//@   ensures tickInOrder(src, idx)
//@   label C10.tick.nodrop
//@   ensures tickChain(src, idx, prv) && tickLast(src, idx, lst)
//@   label C10.tick.onlyplugged
//@   ensures tickOnlyPlugged(m, slot) && retrGrows()
//@   label C10.tick.logkept
//@   ensures logPrefixKept() && dlvN >= old(dlvN)
//@   label C10.tick.nooverfill
//@   ensures fullStaysFull()
//@   label C10.tick.table
//@   ensures tableWF(m.ports) && unchanged(m.ports.ports) && unchanged(m.ports.portMap)
//@   assigns m.comp.State.NextPortID, outRetr, canSend, canDlv, dlvN, dlvTyp, dlvVal, dlvTo, inTyp, inVal
//@   loop 0: ghost gsrc = mapof(j, 0)
//@   loop 0: backedge gsrc = nsrc(gsrc, athead(dlvN), ifaceval(port))
//@   loop 0: ghost gidx = mapof(j, 0)
//@   loop 0: backedge gidx = nidx(gidx, athead(dlvN), athead(outRetr)[ifaceval(port)])
//@   loop 0: ghost gprv = mapof(j, old(dlvN) - 1)
//@   loop 0: ghost glst = mapof(j, old(dlvN) - 1)
//@   loop 0: backedge gprv = nprv(gprv, athead(dlvN), glst[ifaceval(port)])
//@   loop 0: backedge glst = nlst(glst, ifaceval(port), athead(dlvN), dlvN)
//@   loop 0: ghost gslot = mapof(j, 0)
//@   loop 0: backedge gslot = upd(gslot, ifaceval(port), portID)
//@   loop 0: invariant numPorts == len(m.ports.ports) && numPorts > 0 && state.NextPortID == old(m.comp.State.NextPortID)
//@   loop 0: invariant tableWF(m.ports) && allRoutable(m) && dlvN >= old(dlvN)
//@   loop 0: invariant madeProgress <==> dlvN > old(dlvN)
//@   loop 0: invariant retrGrows() && logPrefixKept() && fullStaysFull()
//@   loop 0: invariant tickDelivered(m, gsrc, gidx)
//@   loop 0: invariant tickInOrder(gsrc, gidx)
//@   loop 0: invariant tickChain(gsrc, gidx, gprv)
//@   loop 0: invariant tickLast(gsrc, gidx, glst)
//@   loop 0: invariant tickOnlyPlugged(m, gslot)

// ---- wake-ups: a sender that starts to fill an empty queue, or a receiver that regains room, makes the connection tick ----
// Ghosts of /verif/contracts/modeling/zz_contracts_wake_verif.go (properties C09/C12), whose verified contract of
// (*TickScheduler).TickNow is reused: sched[h][u] = ticks of handler h pending at instant u; now = current time.
//@ ghost var sched map2
//@ ghost var now int
//@ ghost var lastSecondary bool
//@ ghost var issued set
//@ func tsOf(c) = c.Component.TickingComponent.TickScheduler
//@ pred wakeWF(c) = c.Component != nil && c.Component.TickingComponent != nil && modeling.tsWF(tsOf(c)) && modeling.tsInv(tsOf(c))

//@ fn (*Comp).NotifySend
//@   property C10
//@   requires wakeWF(c)
// after NotifySend a tick of the connection is pending at or after the current instant (TickNow's C09 postcondition)
//@   label C10.notifysend.tick
//@   ensures sched[tsOf(c).handlerID][tsOf(c).nextTickTime] >= 1 && int(tsOf(c).nextTickTime) >= now
//@   label C10.notifysend.wf
//@   ensures wakeWF(c)
//@   assigns sched, lastSecondary, tsOf(c).nextTickTime, tsOf(c).hasScheduledTick, issued, key("G|github.com/sarchlab/akita/v5/timing.idGenerator|"), key("G|github.com/sarchlab/akita/v5/timing.idGeneratorInstantiated|"), key("O|timing.sequentialIDGenerator|nextID"), key("O|timing.parallelIDGenerator|nextID")

// NotifyAvailable(p): every plugged port other than p is told once that the connection can deliver again; then the
// connection ticks. (Ports are compared as interface values; the ghost is keyed by the value part.)
//@ pred mPortsDistinct(m) = forall i in 0..len(m.ports.ports) :: forall j in 0..len(m.ports.ports) :: i != j ==> ifaceval(m.ports.ports[i]) != ifaceval(m.ports.ports[j])
//@ pred sameIdentity(m, p) = forall i in 0..len(m.ports.ports) :: ifaceval(m.ports.ports[i]) == ifaceval(p) ==> m.ports.ports[i] == p
//@ fn (*Comp).NotifyAvailable
//@   property C10
//@   requires compWF(c) && wakeWF(c) && mPortsDistinct(mwOf(c)) && sameIdentity(mwOf(c), p)
//@   witness slot map = gslot
//@   label C10.notifyavail.others
//@   ensures forall i in 0..len(mwOf(c).ports.ports) :: mwOf(c).ports.ports[i] != p ==> availCnt[ifaceval(mwOf(c).ports.ports[i])] == old(availCnt)[ifaceval(mwOf(c).ports.ports[i])] + 1
//@   label C10.notifyavail.self
//@   ensures availCnt[ifaceval(p)] == old(availCnt)[ifaceval(p)]
//@   label C10.notifyavail.onlyplugged
//@   ensures forall q int :: availCnt[q] != old(availCnt)[q] ==> 0 <= slot[q] && slot[q] < len(mwOf(c).ports.ports) && ifaceval(mwOf(c).ports.ports[slot[q]]) == q
//@   label C10.notifyavail.tick
//@   ensures sched[tsOf(c).handlerID][tsOf(c).nextTickTime] >= 1 && int(tsOf(c).nextTickTime) >= now
//@   label C10.notifyavail.wf
//@   ensures wakeWF(c) && compWF(c) && unchanged(mwOf(c).ports.ports)
//@   assigns availCnt, sched, lastSecondary, tsOf(c).nextTickTime, tsOf(c).hasScheduledTick, issued, key("G|github.com/sarchlab/akita/v5/timing.idGenerator|"), key("G|github.com/sarchlab/akita/v5/timing.idGeneratorInstantiated|"), key("O|timing.sequentialIDGenerator|nextID"), key("O|timing.parallelIDGenerator|nextID")
//@   loop 0: ghost gslot = mapof(j, 0)
//@   loop 0: backedge gslot = upd(gslot, ifaceval(port), rangeindex)
//@   loop 0: invariant -1 <= rangeindex && rangeindex < len(mwOf(c).ports.ports) && compWF(c) && wakeWF(c)
//@   loop 0: invariant forall i in 0..rangeindex + 1 :: mwOf(c).ports.ports[i] != p ==> availCnt[ifaceval(mwOf(c).ports.ports[i])] == old(availCnt)[ifaceval(mwOf(c).ports.ports[i])] + 1
//@   loop 0: invariant forall i in rangeindex + 1..len(mwOf(c).ports.ports) :: availCnt[ifaceval(mwOf(c).ports.ports[i])] == old(availCnt)[ifaceval(mwOf(c).ports.ports[i])]
//@   loop 0: invariant availCnt[ifaceval(p)] == old(availCnt)[ifaceval(p)]
//@   loop 0: invariant forall q int :: availCnt[q] != old(availCnt)[q] ==> 0 <= gslot[q] && gslot[q] <= rangeindex && ifaceval(mwOf(c).ports.ports[gslot[q]]) == q
