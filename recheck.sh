#!/bin/bash
# recheck.sh <ids...>: runs each property's quick check on the current tree; a clean run (exit 0) is recorded in the
# ledger and the proof memo. Prints one summary line per property.
cd /verif
for id in "$@"; do
  s=$(date +%s)
  out=$(./bin/akverif check $id --tier quick 2>&1); rc=$?
  e=$(( $(date +%s) - s ))
  echo "$id rc=$rc ${e}s :: $(echo "$out" | tail -1 | cut -c1-160)"
  if [ $rc -eq 0 ]; then ./bin/akverif ledger-update $id > /dev/null; else echo "$out" | grep -E "^(VIOLATION|UNDECIDED)" | head -5 | cut -c1-260; fi
done
